(* Proofs/PiReal.v — C09: get_isoelectric_point never raises.  Part 2 (over R): the normalised
   Henderson–Hasselbalch charge satisfies the four oracle conditions of Proofs/PiTotal.v, for every
   sequence, and so does every oracle within 1/1000 of it (the float evaluation of charge_at_pH). *)
From Coq Require Import Reals Lra QArith Qabs Qreals ZArith List Bool Lia.
From LC Require Import Core.Residue Core.Lists Core.QTools Spec.Tables Model.Titration Proofs.Titration Proofs.PiTotal.
Import ListNotations.
Local Open Scope R_scope.

Lemma p10_0 : p10 0 = 1.
Proof. unfold p10. rewrite Rmult_0_l. apply exp_0. Qed.

Lemma p10_plus a b : p10 (a + b) = p10 a * p10 b.
Proof. unfold p10. rewrite Rmult_plus_distr_r. apply exp_plus. Qed.

Lemma p10_1 : p10 1 = 10.
Proof. unfold p10. rewrite Rmult_1_l. apply exp_ln. lra. Qed.

Lemma p10_2 : p10 2 = 100.
Proof. replace 2 with (1 + 1) by lra. rewrite p10_plus, p10_1. lra. Qed.

Lemma p10_ge1 d : 0 <= d -> 1 <= p10 d.
Proof. intros H. rewrite <- p10_0. apply p10_mono. exact H. Qed.

Lemma exp3_ge10 : 10 <= exp 3.
Proof.
  pose proof (exp_ineq1_le (1 / 2)) as H.
  assert (E1 : exp 1 = exp (1 / 2) * exp (1 / 2)) by (rewrite <- exp_plus; f_equal; lra).
  assert (E3 : exp 3 = exp 1 * exp 1 * exp 1) by (rewrite <- !exp_plus; f_equal; lra).
  assert (9 / 4 <= exp 1) by (rewrite E1; nra).
  rewrite E3. assert (0 < exp 1) by apply exp_pos. nra.
Qed.

Lemma ln10_le3 : ln 10 <= 3.
Proof.
  rewrite <- (ln_exp 3). destruct (Req_dec 10 (exp 3)) as [->|Hne]; [lra|].
  left. apply ln_increasing; [lra|]. pose proof exp3_ge10. lra.
Qed.

(* 10^d - 1 <= 4 d on [0, 1/16] *)
Lemma p10_small d : 0 <= d <= 1 / 16 -> p10 d - 1 <= 4 * d.
Proof.
  intros [H0 H1]. unfold p10. set (z := d * ln 10).
  pose proof ln10_pos as Lp. pose proof ln10_le3 as L3.
  assert (Hz0 : 0 <= z) by (unfold z; nra).
  assert (Hz3 : z <= 3 * d) by (unfold z; nra).
  pose proof (exp_ineq1_le (- z)) as Hm.
  assert (HE : exp z * exp (- z) = 1) by (rewrite <- exp_plus; replace (z + - z) with 0 by lra; apply exp_0).
  pose proof (exp_pos z) as Ep. pose proof (exp_pos (- z)) as Emp.
  assert (Hb : exp z * (1 - z) <= 1) by nra.
  assert (Hz1 : 13 / 16 <= 1 - z) by lra.
  assert (Hc0 : exp z * (13 / 16) <= exp z * (1 - z)) by (apply Rmult_le_compat_l; lra).
  assert (Hc : exp z <= 16 / 13) by lra.
  assert (Hd : exp z * z <= 16 / 13 * z) by (apply Rmult_le_compat_r; assumption).
  lra.
Qed.

Lemma inv_diff_bound u t : 0 < u -> 1 <= t -> / (1 + u) - / (1 + u * t) <= (t - 1) / 4.
Proof.
  intros Hu Ht.
  assert (HA : 0 < 1 + u) by lra. assert (HB : 0 < 1 + u * t) by nra.
  replace (/ (1 + u) - / (1 + u * t)) with ((u * (t - 1)) / ((1 + u) * (1 + u * t))) by (field; lra).
  apply Rmult_le_reg_r with ((1 + u) * (1 + u * t)); [nra|].
  unfold Rdiv at 1. rewrite Rmult_assoc, Rinv_l by nra. rewrite Rmult_1_r.
  assert (Hut : u <= u * t) by (rewrite <- (Rmult_1_r u) at 1; apply Rmult_le_compat_l; lra).
  assert ((1 + u) * (1 + u) <= (1 + u) * (1 + u * t)) by (apply Rmult_le_compat_l; lra).
  assert (0 <= (1 - u) * (1 - u)) by (apply Rle_0_sqr).
  assert (4 * u <= (1 + u) * (1 + u)) by lra.
  assert (0 <= (t - 1) * ((1 + u) * (1 + u * t) - 4 * u)) by (apply Rmult_le_pos; lra).
  nra.
Qed.

Lemma posf_lip pK x y : x <= y -> posf pK x - posf pK y <= (p10 (y - x) - 1) / 4.
Proof.
  intros H. unfold posf. replace (y - pK) with ((x - pK) + (y - x)) by lra. rewrite p10_plus.
  apply inv_diff_bound; [apply p10_pos | apply p10_ge1; lra].
Qed.

Lemma negf_lip pK x y : x <= y -> negf pK y - negf pK x <= (p10 (y - x) - 1) / 4.
Proof.
  intros H. unfold negf. replace (pK - x) with ((pK - y) + (y - x)) by lra. rewrite p10_plus.
  apply inv_diff_bound; [apply p10_pos | apply p10_ge1; lra].
Qed.

Theorem net_lip ts x y : counts_nonneg ts -> x <= y ->
  net ts x - net ts y <= ntitR ts * ((p10 (y - x) - 1) / 4).
Proof.
  intros Hc Hxy. unfold net, ntitR. induction Hc as [|[[n pK] pos] ts Hn _ IH]; cbn [sumT]; [lra|].
  cbn [fst] in *. apply IZR_le in Hn.
  set (A := sumT (fun t => term_net t x) ts) in *. set (B := sumT (fun t => term_net t y) ts) in *.
  set (C := sumT (fun t => IZR (fst (fst t))) ts) in *. set (K := (p10 (y - x) - 1) / 4) in *.
  unfold term_net. cbv beta iota.
  pose proof (posf_lip (Q2R pK) x y Hxy) as PL. pose proof (negf_lip (Q2R pK) x y Hxy) as NL. fold K in PL, NL.
  destruct pos; nra.
Qed.

(* pKa sanity of the table: acids >= 3, bases <= 13 *)
Definition pk_ok (ts : list (Z * Q * bool)) : Prop :=
  Forall (fun t : Z * Q * bool => if snd t then Q2R (snd (fst t)) <= 13 else 3 <= Q2R (snd (fst t))) ts.

Lemma negf_low pK x : 3 <= pK -> x <= 1 -> negf pK x <= / 101.
Proof.
  intros HpK Hx. unfold negf. pose proof (p10_mono 2 (pK - x) ltac:(lra)) as H. rewrite p10_2 in H.
  apply Rinv_le_contravar; lra.
Qed.
Lemma posf_high pK x : pK <= 13 -> 15 <= x -> posf pK x <= / 101.
Proof.
  intros HpK Hx. unfold posf. pose proof (p10_mono 2 (x - pK) ltac:(lra)) as H. rewrite p10_2 in H.
  apply Rinv_le_contravar; lra.
Qed.

Theorem net_low ts x : counts_nonneg ts -> pk_ok ts -> x <= 1 -> - (ntitR ts / 101) <= net ts x.
Proof.
  intros Hc Hp Hx. unfold net, ntitR. induction Hc as [|[[n pK] pos] ts Hn _ IH]; cbn [sumT]; [lra|].
  inversion Hp as [|? ? Hp1 Hp2]; subst. cbn [fst snd] in *. apply IZR_le in Hn. specialize (IH Hp2).
  set (A := sumT (fun t => term_net t x) ts) in *. set (C := sumT (fun t => IZR (fst (fst t))) ts) in *.
  unfold term_net. cbv beta iota.
  pose proof (posf_range (Q2R pK) x) as [P1 P2]. pose proof (negf_range (Q2R pK) x) as [N1 N2].
  destruct pos; [nra|]. pose proof (negf_low (Q2R pK) x Hp1 Hx). nra.
Qed.

Theorem net_high ts x : counts_nonneg ts -> pk_ok ts -> 15 <= x -> net ts x <= ntitR ts / 101.
Proof.
  intros Hc Hp Hx. unfold net, ntitR. induction Hc as [|[[n pK] pos] ts Hn _ IH]; cbn [sumT]; [lra|].
  inversion Hp as [|? ? Hp1 Hp2]; subst. cbn [fst snd] in *. apply IZR_le in Hn. specialize (IH Hp2).
  set (A := sumT (fun t => term_net t x) ts) in *. set (C := sumT (fun t => IZR (fst (fst t))) ts) in *.
  unfold term_net. cbv beta iota.
  pose proof (posf_range (Q2R pK) x) as [P1 P2]. pose proof (negf_range (Q2R pK) x) as [N1 N2].
  destruct pos; [|nra]. pose proof (posf_high (Q2R pK) x Hp1 Hx). nra.
Qed.

(* charge_at_pH(x, normalize=True): mean charge per titratable residue *)
Definition ncharge (ts : list (Z * Q * bool)) (x : R) : R := net ts x / ntitR ts.

Section Oracle.
Variable ts : list (Z * Q * bool).
Hypothesis Hc : counts_nonneg ts.
Hypothesis Hp : pk_ok ts.
Hypothesis Hn : 0 < ntitR ts.
(* the oracle the loop calls: any function within 1/1000 of the exact normalised charge *)
Variable f : Q -> Q.
Hypothesis Hf : forall q, Rabs (Q2R (f q) - ncharge ts (Q2R q)) <= 1 / 1000.

Lemma f_near q : ncharge ts (Q2R q) - 1 / 1000 <= Q2R (f q) <= ncharge ts (Q2R q) + 1 / 1000.
Proof.
  pose proof (Hf q) as H. unfold Rabs in H.
  destruct (Rcase_abs (Q2R (f q) - ncharge ts (Q2R q))); lra.
Qed.

Lemma Q2R_c a b : Q2R (a # b) = IZR a / IZR (Zpos b).
Proof. reflexivity. Qed.

Lemma oracle_P1 x y : (x <= y)%Q -> (f y <= f x + (2 # 1000))%Q.
Proof.
  intros H. apply Rle_Qle. rewrite Q2R_plus, Q2R_c. apply Qle_Rle in H.
  pose proof (f_near x). pose proof (f_near y).
  assert (ncharge ts (Q2R y) <= ncharge ts (Q2R x)).
  { unfold ncharge, Rdiv. apply Rmult_le_compat_r; [left; apply Rinv_0_lt_compat; exact Hn|].
    apply net_decreasing; assumption. }
  lra.
Qed.

Lemma oracle_P2 x y : (x <= y)%Q -> (y - x <= 1 # 16)%Q -> (f x - f y <= (y - x) + (2 # 1000))%Q.
Proof.
  intros H Hd. apply Rle_Qle. rewrite Q2R_plus, !Q2R_minus, Q2R_c. apply Qle_Rle in H. apply Qle_Rle in Hd.
  rewrite Q2R_minus, Q2R_c in Hd.
  pose proof (f_near x). pose proof (f_near y).
  assert (ncharge ts (Q2R x) - ncharge ts (Q2R y) <= Q2R y - Q2R x).
  { unfold ncharge. pose proof (net_lip ts _ _ Hc H) as HL.
    pose proof (p10_small (Q2R y - Q2R x) ltac:(lra)) as HS.
    assert (Hi : 0 < / ntitR ts) by (apply Rinv_0_lt_compat; exact Hn).
    replace (net ts (Q2R x) / ntitR ts - net ts (Q2R y) / ntitR ts) with ((net ts (Q2R x) - net ts (Q2R y)) * / ntitR ts) by (unfold Rdiv; ring).
    apply Rmult_le_reg_r with (ntitR ts); [exact Hn|]. rewrite Rmult_assoc, Rinv_l by lra. nra. }
  lra.
Qed.

Lemma oracle_P3a x : (x <= 1)%Q -> (- (11 # 1000) <= f x)%Q.
Proof.
  intros H. apply Rle_Qle. rewrite Q2R_opp, Q2R_c. apply Qle_Rle in H. change (Q2R 1) with (1 / 1) in H.
  pose proof (f_near x). pose proof (net_low ts (Q2R x) Hc Hp ltac:(lra)) as HL.
  assert (- / 101 <= ncharge ts (Q2R x)).
  { unfold ncharge. apply Rmult_le_reg_r with (ntitR ts); [exact Hn|].
    unfold Rdiv. rewrite Rmult_assoc, Rinv_l by lra. unfold Rdiv in HL. lra. }
  lra.
Qed.

Lemma oracle_P3b x : (15 <= x)%Q -> (f x <= 11 # 1000)%Q.
Proof.
  intros H. apply Rle_Qle. rewrite Q2R_c. apply Qle_Rle in H. change (Q2R 15) with (15 / 1) in H.
  pose proof (f_near x). pose proof (net_high ts (Q2R x) Hc Hp ltac:(lra)) as HL.
  assert (ncharge ts (Q2R x) <= / 101).
  { unfold ncharge. apply Rmult_le_reg_r with (ntitR ts); [exact Hn|].
    unfold Rdiv. rewrite Rmult_assoc, Rinv_l by lra. unfold Rdiv in HL. lra. }
  lra.
Qed.

Theorem pi_total_oracle : exists x tr, isoelectric f = (Some x, tr) /\ (List.length tr <= 28)%nat.
Proof. apply bisect_total_28; [exact oracle_P1 | exact oracle_P2 | exact oracle_P3a | exact oracle_P3b]. Qed.
End Oracle.

(* every sequence's titration terms qualify *)
Lemma titr_counts_nonneg s : counts_nonneg (titr_terms s).
Proof.
  unfold counts_nonneg, titr_terms. apply Forall_forall. intros t Ht. apply in_map_iff in Ht.
  destruct Ht as [rb [<- _]]. cbn [fst]. unfold count_res. apply cnt_nonneg.
Qed.

Lemma titr_pk_ok s : pk_ok (titr_terms s).
Proof.
  unfold pk_ok, titr_terms, titratable. cbn [map fst snd pka].
  repeat constructor; cbn [fst snd]; unfold Q2R; cbn; lra.
Qed.

Lemma ntitR_ntit s : ntitR (titr_terms s) = IZR (ntit s).
Proof.
  unfold ntitR, ntit. induction (titr_terms s) as [|t ts IH]; cbn [sumT map fold_right]; [reflexivity|].
  rewrite IH, plus_IZR. reflexivity.
Qed.

(* C09: for every sequence with a titratable residue and every evaluation of charge_at_pH accurate
   to 1/1000, the loop returns (no exception) *)
Theorem pi_never_raises s f : (0 < ntit s)%Z ->
  (forall q, Rabs (Q2R (f q) - ncharge (titr_terms s) (Q2R q)) <= 1 / 1000) ->
  exists x tr, isoelectric f = (Some x, tr) /\ (List.length tr <= 28)%nat.
Proof.
  intros Hpos Hf. apply (pi_total_oracle (titr_terms s)); [apply titr_counts_nonneg | apply titr_pk_ok | | exact Hf].
  rewrite ntitR_ntit. apply IZR_lt. exact Hpos.
Qed.

Lemma iso_within_threshold f x tr : isoelectric f = (Some x, tr) -> (Qabs (f x) <= 2 # 100)%Q.
Proof. unfold isoelectric. apply pi_returns_within_threshold. Qed.

(* ... and the pH returned neutralises the exact mean charge to within 0.021 *)
Theorem pi_result_neutral s f : (0 < ntit s)%Z ->
  (forall q, Rabs (Q2R (f q) - ncharge (titr_terms s) (Q2R q)) <= 1 / 1000) ->
  exists x tr, isoelectric f = (Some x, tr) /\ (Qabs (f x) <= 2 # 100)%Q /\
               Rabs (ncharge (titr_terms s) (Q2R x)) <= 21 / 1000.
Proof.
  intros Hpos Hf. destruct (pi_never_raises s f Hpos Hf) as [x [tr [H _]]].
  exists x, tr. split; [exact H|].
  pose proof (iso_within_threshold f x tr H) as Hq.
  split; [exact Hq|].
  apply Qabs_Qle_condition in Hq. destruct Hq as [Hq1 Hq2]. apply Qle_Rle in Hq1. apply Qle_Rle in Hq2.
  rewrite Q2R_opp in Hq1. change (Q2R (2 # 100)) with (2 / 100) in Hq1, Hq2.
  pose proof (Hf x) as Hx. unfold Rabs in *.
  destruct (Rcase_abs (Q2R (f x) - ncharge (titr_terms s) (Q2R x))); destruct (Rcase_abs (ncharge (titr_terms s) (Q2R x))); lra.
Qed.
