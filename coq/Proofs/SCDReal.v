(* Proofs/SCDReal.v — the real-valued SCD: pair-sum definition = coefficient form; the rational
   enclosure computed by Model.SCD.scd_bounds is sound (C07).  Uses the standard library's
   real-number axioms (reported by Print Assumptions). *)
From Coq Require Import Reals Lra QArith Qreals Qreduction ZArith List Lia.
From LC Require Import Core.Residue Core.Lists Core.QTools Spec.Delta Model.SCD Proofs.SCD.
Import ListNotations.
Local Open Scope R_scope.

(* sum_j l_j * sqrt (k + j) *)
Fixpoint wsumR (l : list Z) (k : nat) : R :=
  match l with [] => 0 | x :: l' => IZR x * sqrt (INR k) + wsumR l' (S k) end.

(* sum over pairs m > n of q_m q_n sqrt (m - n): the head pairs with every later residue *)
Fixpoint pairsumR (l : list Z) : R :=
  match l with [] => 0 | q :: l' => IZR q * wsumR l' 1 + pairsumR l' end.

Definition SCD_R (l : list Z) : R := pairsumR l / INR (length l).

Fixpoint csumR (cs : list Z) (d : nat) : R :=
  match cs with [] => 0 | c :: cs' => IZR c * sqrt (INR d) + csumR cs' (S d) end.

Definition coefsumR (l : list Z) : R := csumR (scd_coeffs l) 1.

Lemma csumR_app a : forall b d, csumR (a ++ b) d = csumR a d + csumR b (d + length a)%nat.
Proof.
  induction a as [|x a IH]; intros b d; cbn [app csumR length].
  - rewrite Nat.add_0_r. lra.
  - rewrite IH. replace (S d + length a)%nat with (d + S (length a))%nat by lia. lra.
Qed.

Lemma csumR_map_plus (g h : nat -> Z) : forall n a,
  csumR (map (fun d => (g d + h d)%Z) (seq a n)) a = csumR (map g (seq a n)) a + csumR (map h (seq a n)) a.
Proof.
  induction n as [|n IH]; intros a; cbn [seq map csumR]; [lra|].
  rewrite IH, plus_IZR. lra.
Qed.

Lemma csumR_head q l : forall a,
  csumR (map (fun d => (q * nth (d - a) l 0)%Z) (seq a (length l))) a = IZR q * wsumR l a.
Proof.
  induction l as [|x l IH]; intros a; cbn [length seq map csumR wsumR]; [lra|].
  rewrite Nat.sub_diag. change (nth 0 (x :: l) 0%Z) with x. rewrite mult_IZR.
  replace (map (fun d => (q * nth (d - a) (x :: l) 0)%Z) (seq (S a) (length l)))
    with (map (fun d => (q * nth (d - S a) l 0)%Z) (seq (S a) (length l))).
  - rewrite (IH (S a)). ring.
  - apply map_ext_in. intros d Hd. apply in_seq in Hd.
    replace (d - a)%nat with (S (d - S a)) by lia. reflexivity.
Qed.

Lemma coeff_full l : coeff l (length l) = 0%Z.
Proof. unfold coeff. rewrite skipn_all. apply dot_nil_r. Qed.

Theorem pairsum_coeff_form l : pairsumR l = coefsumR l.
Proof.
  induction l as [|q l IH]; [reflexivity|].
  cbn [pairsumR]. unfold coefsumR, scd_coeffs. cbn [length].
  replace (S (length l) - 1)%nat with (length l) by lia.
  replace (map (coeff (q :: l)) (seq 1 (length l)))
    with (map (fun d => (q * nth (d - 1) l 0 + coeff l d)%Z) (seq 1 (length l))).
  2:{ apply map_ext_in. intros d Hd. apply in_seq in Hd. destruct d as [|d]; [lia|].
      rewrite coeff_cons. cbn [Nat.sub]. rewrite Nat.sub_0_r. reflexivity. }
  rewrite (csumR_map_plus (fun d => (q * nth (d - 1) l 0)%Z) (coeff l)).
  rewrite csumR_head. rewrite IH. unfold coefsumR, scd_coeffs.
  destruct (length l) as [|n] eqn:E; [cbn; lra|].
  replace (S n - 1)%nat with n by lia.
  rewrite seq_S, map_app, csumR_app. cbn [map csumR].
  replace (1 + n)%nat with (length l) by lia. rewrite coeff_full. lra.
Qed.

Theorem SCD_coeff_form l : SCD_R l = coefsumR l / INR (length l).
Proof. unfold SCD_R. now rewrite pairsum_coeff_form. Qed.

Lemma csumR_zero cs : Forall (fun c => c = 0%Z) cs -> forall d, csumR cs d = 0.
Proof. induction 1 as [|c cs Hc _ IH]; intros d; cbn [csumR]; [reflexivity|]. rewrite Hc, IH. lra. Qed.

Theorem SCD_few_charges l : (cnt nzb l <= 1)%Z -> SCD_R l = 0.
Proof.
  intros H. rewrite SCD_coeff_form. unfold coefsumR. rewrite (csumR_zero _ (scd_few_charges l H)).
  unfold Rdiv. lra.
Qed.

(* ---------- soundness of the rational enclosure ---------- *)
Lemma Q2R_inject_Z z : Q2R (inject_Z z) = IZR z.
Proof. unfold Q2R, inject_Z. cbn [Qnum Qden]. lra. Qed.

Lemma Q2R_Qred q : Q2R (Qred q) = Q2R q.
Proof. apply Qeq_eqR. apply Qred_correct. Qed.

Lemma Q2R_make a (b : Z) : (0 < b)%Z -> Q2R (a # Z.to_pos b) = IZR a / IZR b.
Proof. intros Hb. unfold Q2R. cbn [Qnum Qden]. rewrite Z2Pos.id by exact Hb. reflexivity. Qed.

Lemma sqrt_enclosure d : (0 <= d)%Z -> Q2R (sqrt_lo d) <= sqrt (IZR d) <= Q2R (sqrt_hi d).
Proof.
  intros Hd. unfold sqrt_lo, sqrt_hi.
  assert (HS : (0 < sq_scale)%Z) by reflexivity.
  rewrite !Q2R_make by exact HS.
  set (s := Z.sqrt (d * sq_scale * sq_scale)).
  assert (Hn : (0 <= d * sq_scale * sq_scale)%Z) by (unfold sq_scale; lia).
  pose proof (Z.sqrt_spec _ Hn) as [Hlo Hhi]. fold s in Hlo, Hhi.
  assert (Hs0 : (0 <= s)%Z) by apply Z.sqrt_nonneg.
  assert (HSr : 0 < IZR sq_scale) by (apply IZR_lt; exact HS).
  assert (Hdr : 0 <= IZR d) by (apply IZR_le; exact Hd).
  assert (Hd2 : IZR d = (sqrt (IZR d) * IZR sq_scale) * (sqrt (IZR d) * IZR sq_scale) / (IZR sq_scale * IZR sq_scale)).
  { field_simplify_eq; [|lra]. rewrite <- (sqrt_sqrt (IZR d)) at 1 by exact Hdr. ring. }
  assert (Hx : 0 <= sqrt (IZR d) * IZR sq_scale) by (apply Rmult_le_pos; [apply sqrt_pos | lra]).
  assert (Hsq : (sqrt (IZR d) * IZR sq_scale) * (sqrt (IZR d) * IZR sq_scale) = IZR (d * sq_scale * sq_scale)).
  { rewrite !mult_IZR. replace (sqrt (IZR d) * IZR sq_scale * (sqrt (IZR d) * IZR sq_scale))
      with ((sqrt (IZR d) * sqrt (IZR d)) * IZR sq_scale * IZR sq_scale) by ring.
    rewrite sqrt_sqrt by exact Hdr. ring. }
  split.
  - apply Rmult_le_reg_r with (IZR sq_scale); [exact HSr|].
    unfold Rdiv. rewrite Rmult_assoc, Rinv_l, Rmult_1_r by lra.
    (* s <= sqrt d * S  since s^2 <= d S^2 = (sqrt d * S)^2 *)
    destruct (Rle_lt_dec (IZR s) (sqrt (IZR d) * IZR sq_scale)) as [H|H]; [exact H|exfalso].
    assert (H2 : (sqrt (IZR d) * IZR sq_scale) * (sqrt (IZR d) * IZR sq_scale) < IZR s * IZR s)
      by (apply Rmult_le_0_lt_compat; assumption).
    rewrite Hsq, <- mult_IZR in H2. apply lt_IZR in H2. lia.
  - apply Rmult_le_reg_r with (IZR sq_scale); [exact HSr|].
    unfold Rdiv. rewrite Rmult_assoc, Rinv_l, Rmult_1_r by lra.
    destruct (Rle_lt_dec (sqrt (IZR d) * IZR sq_scale) (IZR (s + 1))) as [H|H]; [exact H|exfalso].
    assert (Hs1 : 0 <= IZR (s + 1)) by (apply IZR_le; lia).
    assert (H2 : IZR (s + 1) * IZR (s + 1) < (sqrt (IZR d) * IZR sq_scale) * (sqrt (IZR d) * IZR sq_scale))
      by (apply Rmult_le_0_lt_compat; assumption).
    rewrite Hsq, <- mult_IZR in H2. apply lt_IZR in H2. lia.
Qed.

Lemma INR_to_nat d : (0 <= d)%Z -> INR (Z.to_nat d) = IZR d.
Proof. intros H. rewrite INR_IZR_INZ, Z2Nat.id by exact H. reflexivity. Qed.

Lemma enc_sound cs : forall d, (0 <= d)%Z ->
  Q2R (fst (enc cs d)) <= csumR cs (Z.to_nat d) <= Q2R (snd (enc cs d)).
Proof.
  induction cs as [|c cs IH]; intros d Hd; cbn [enc csumR].
  - unfold Q2R; cbn. lra.
  - specialize (IH (d + 1)%Z ltac:(lia)). destruct (enc cs (d + 1)) as [lo hi]. cbn [fst snd] in IH.
    replace (Z.to_nat (d + 1)) with (S (Z.to_nat d)) in IH by lia.
    pose proof (sqrt_enclosure d Hd) as [Hl Hh]. rewrite <- (INR_to_nat d Hd) in Hl, Hh.
    destruct (0 <=? c)%Z eqn:Ec; cbn [fst snd]; rewrite !Q2R_Qred, !Q2R_plus, !Q2R_mult, !Q2R_inject_Z.
    + apply Z.leb_le in Ec. apply IZR_le in Ec. split; nra.
    + apply Z.leb_gt in Ec. apply IZR_lt in Ec. split; nra.
Qed.

Theorem scd_bounds_sound l : l <> [] ->
  Q2R (fst (scd_bounds l)) <= SCD_R l <= Q2R (snd (scd_bounds l)).
Proof.
  intros Hne. rewrite SCD_coeff_form. unfold coefsumR, scd_bounds.
  pose proof (enc_sound (scd_coeffs l) 1 ltac:(lia)) as H.
  destruct (enc (scd_coeffs l) 1) as [lo hi]. cbn [fst snd] in *.
  change (Z.to_nat 1) with 1%nat in H.
  assert (HN : 0 < INR (length l)) by (destruct l; [congruence | apply lt_0_INR; cbn [length]; lia]).
  assert (HQ : ~ (inject_Z (Z.of_nat (length l)) == 0)%Q).
  { intros E. unfold Qeq in E. cbn in E. destruct l; [congruence | cbn [length] in E; lia]. }
  rewrite !Q2R_div by exact HQ. rewrite Q2R_inject_Z, <- INR_IZR_INZ.
  unfold Rdiv. split; apply Rmult_le_compat_r; try (left; apply Rinv_0_lt_compat; exact HN); lra.
Qed.
