(* Proofs/WL.v — C18: bookkeeping invariants of the Wang–Landau run, for EVERY list of events that meet
   the side conditions (whichever way rounding broke ties in the two float decisions). *)
From Coq Require Import QArith Qabs ZArith List Bool Arith Lia.
From LC Require Import Core.Residue Core.Lists Core.QTools Spec.Delta Model.Delta Model.DeltaCheck Model.WL.
Import ListNotations.

(* run with the side conditions checked at every step *)
Fixpoint wl_run (c : wlcfg) (s : wlst) (es : list event) : option wlst :=
  match es with
  | [] => Some s
  | e :: es' => if side_ok c s e then wl_run c (wl_step c s e) es' else None
  end.

(* ---------- lists ---------- *)
Lemma upd_length {X} (l : list X) i f : List.length (upd l i f) = List.length l.
Proof. revert i. induction l as [|x l IH]; intros [|i]; cbn [upd List.length]; try reflexivity. now rewrite IH. Qed.

Lemma nth_upd_same {X} (l : list X) i f d : (i < List.length l)%nat -> nth i (upd l i f) d = f (nth i l d).
Proof. revert i. induction l as [|x l IH]; intros [|i] H; cbn [upd nth List.length] in *; try lia; [reflexivity | apply IH; lia]. Qed.

Lemma nth_upd_other {X} (l : list X) i j f d : i <> j -> nth i (upd l j f) d = nth i l d.
Proof.
  revert i j. induction l as [|x l IH]; intros [|i] [|j] H; cbn [upd nth]; try reflexivity; try congruence.
  apply IH. congruence.
Qed.

Lemma sumZ_upd l i : (i < List.length l)%nat -> sumZ (upd l i (fun x => (x + 1)%Z)) = (sumZ l + 1)%Z.
Proof.
  revert i. induction l as [|x l IH]; intros [|i] H; cbn [upd sumZ fold_right List.length] in *; try lia.
  unfold sumZ in IH. rewrite IH by lia. lia.
Qed.

Lemma sumZ_zeros n : sumZ (zeros n) = 0%Z.
Proof. induction n as [|n IH]; [reflexivity|]. cbn [zeros repeat sumZ fold_right]. unfold sumZ, zeros in IH. rewrite IH. reflexivity. Qed.

Lemma nth_zeros i n : nth i (zeros n) 0%Z = 0%Z.
Proof. unfold zeros. destruct (le_lt_dec n i); [apply nth_overflow; now rewrite repeat_length | apply nth_repeat]. Qed.

(* ---------- multisets ---------- *)
Lemma same_multiset_refl a : same_multiset a a = true.
Proof. unfold same_multiset. rewrite Nat.eqb_refl. apply forallb_forall. intros r _. apply Z.eqb_refl. Qed.

Lemma same_multiset_trans a b c : same_multiset a b = true -> same_multiset b c = true -> same_multiset a c = true.
Proof.
  unfold same_multiset. intros H1 H2. apply andb_prop in H1. apply andb_prop in H2. destruct H1 as [L1 F1]. destruct H2 as [L2 F2].
  apply Nat.eqb_eq in L1. apply Nat.eqb_eq in L2. rewrite forallb_forall in F1, F2.
  apply andb_true_intro. split; [apply Nat.eqb_eq; congruence|]. apply forallb_forall. intros r Hr.
  specialize (F1 r Hr). specialize (F2 r Hr). apply Z.eqb_eq in F1. apply Z.eqb_eq in F2. apply Z.eqb_eq. congruence.
Qed.

(* ---------- the invariant ---------- *)
Definition WInv (c : wlcfg) (input : list aa) (s : wlst) : Prop :=
  same_multiset (cur s) input = true /\
  List.length (gv s) = nb_actual c /\ List.length (hv s) = nb_actual c /\ List.length (gbase s) = nb_actual c /\
  (idx_old s < nb_actual c)%nat /\
  sumZ (hv s) = counted s /\
  (forall i, nth i (gv s) 0 == nth i (gbase s) 0 + lnf (kexp s) * inject_Z (nth i (hv s) 0%Z))%Q.

Lemma init_inv c input start idx0 : same_multiset start input = true -> (idx0 < nb_actual c)%nat ->
  WInv c input (wl_init c start idx0).
Proof.
  intros Hm Hi. unfold WInv, wl_init. cbn [cur gv hv gbase idx_old counted kexp].
  repeat split; try assumption; try apply repeat_length.
  - apply sumZ_zeros.
  - intros i. rewrite nth_zeros. unfold inject_Z. ring.
Qed.

Lemma side_idx c s e : side_ok c s e = true -> (e_idx e < nb_actual c)%nat /\ same_multiset (e_prop e) (cur s) = true /\
  (e_acc e = true -> in_range c (e_idx e) = true).
Proof.
  unfold side_ok. intros H. apply andb_prop in H. destruct H as [H H4]. apply andb_prop in H. destruct H as [H H3].
  apply andb_prop in H. destruct H as [H1 H2]. split; [|split; [exact H1|]].
  - apply existsb_exists in H2. destruct H2 as [k [_ Hk]]. unfold nearest_ok in Hk. apply andb_prop in Hk. destruct Hk as [Hk _].
    now apply Nat.ltb_lt in Hk.
  - intros Ha. apply Bool.eqb_prop in H3. destruct (e_skip e) eqn:Es.
    + rewrite Ha in H4. cbn in H4. discriminate.
    + symmetry in H3. apply negb_false_iff in H3. exact H3.
Qed.

Theorem step_inv c input s e : WInv c input s -> side_ok c s e = true -> WInv c input (wl_step c s e).
Proof.
  intros (Hm & Lg & Lh & Lb & Hi & Hs & Hg) Hside. destruct (side_idx c s e Hside) as (Hidx & Hprop & _).
  set (cur' := if e_acc e then e_prop e else cur s).
  set (idx' := if e_acc e then e_idx e else idx_old s).
  assert (Hidx' : (idx' < nb_actual c)%nat) by (unfold idx'; destruct (e_acc e); assumption).
  assert (Hm' : same_multiset cur' input = true).
  { unfold cur'. destruct (e_acc e); [eapply same_multiset_trans; eassumption | exact Hm]. }
  set (g' := if e_skip e then gv s else upd (gv s) idx' (fun x => Qred (x + lnf (kexp s))%Q)).
  set (h' := if e_skip e then hv s else upd (hv s) idx' (fun x => (x + 1)%Z)).
  set (cnt' := if e_skip e then counted s else (counted s + 1)%Z).
  assert (Lg' : List.length g' = nb_actual c) by (unfold g'; destruct (e_skip e); [exact Lg | now rewrite upd_length]).
  assert (Lh' : List.length h' = nb_actual c) by (unfold h'; destruct (e_skip e); [exact Lh | now rewrite upd_length]).
  assert (Hs' : sumZ h' = cnt').
  { unfold h', cnt'. destruct (e_skip e); [exact Hs|]. rewrite sumZ_upd by (rewrite Lh; exact Hidx'). now rewrite Hs. }
  assert (Hg' : forall i, (nth i g' 0 == nth i (gbase s) 0 + lnf (kexp s) * inject_Z (nth i h' 0%Z))%Q).
  { intros i. unfold g', h'. destruct (e_skip e); [apply Hg|].
    destruct (Nat.eq_dec i idx') as [->|Hne].
    - rewrite !nth_upd_same by (rewrite ?Lg, ?Lh; exact Hidx'). rewrite Qred_correct, Hg, inject_Z_plus. ring.
    - rewrite !nth_upd_other by exact Hne. apply Hg. }
  unfold wl_step. fold cur' idx' g' h' cnt'.
  destruct (S (nstep s) mod nflat c =? 0)%nat.
  - destruct (is_flat c h').
    + unfold WInv. cbn [cur gv hv gbase idx_old counted kexp]. repeat split; try assumption; try apply repeat_length.
      * apply sumZ_zeros.
      * intros i. rewrite nth_zeros. unfold inject_Z. ring.
    + unfold WInv. cbn [cur gv hv gbase idx_old counted kexp]. repeat split; assumption.
  - unfold WInv. cbn [cur gv hv gbase idx_old counted kexp]. repeat split; assumption.
Qed.

Theorem run_inv c input es : forall s s', WInv c input s -> wl_run c s es = Some s' -> WInv c input s'.
Proof.
  induction es as [|e es IH]; intros s s' Hinv H; cbn [wl_run] in H; [injection H as <-; exact Hinv|].
  destruct (side_ok c s e) eqn:E; [|discriminate]. eapply IH; [apply step_inv; eassumption | exact H].
Qed.

(* a move is only ever made into a bin of the requested range *)
Theorem accepted_in_range c s e : side_ok c s e = true -> e_acc e = true -> in_range c (e_idx e) = true.
Proof. intros H. apply (side_idx c s e H). Qed.

Theorem accepted_moves_to_proposal c s e : e_acc e = true ->
  cur (wl_step c s e) = e_prop e /\ idx_old (wl_step c s e) = e_idx e.
Proof.
  intros Ha. unfold wl_step. rewrite Ha.
  destruct (S (nstep s) mod nflat c =? 0)%nat; [destruct (is_flat c _)|]; split; reflexivity.
Qed.

Theorem rejected_stays c s e : e_acc e = false -> cur (wl_step c s e) = cur s /\ idx_old (wl_step c s e) = idx_old s.
Proof.
  intros Ha. unfold wl_step. rewrite Ha.
  destruct (S (nstep s) mod nflat c =? 0)%nat; [destruct (is_flat c _)|]; split; reflexivity.
Qed.

(* f changes exactly at a scheduled check that finds the histogram flat; the histogram is then reset *)
Theorem f_schedule c s e :
  let h' := if e_skip e then hv s else upd (hv s) (if e_acc e then e_idx e else idx_old s) (fun x => (x + 1)%Z) in
  (kexp (wl_step c s e) = S (kexp s) /\ hv (wl_step c s e) = zeros (nb_actual c) /\ niter (wl_step c s e) = S (niter s)) \/
  (kexp (wl_step c s e) = kexp s /\ hv (wl_step c s e) = h' /\ niter (wl_step c s e) = niter s).
Proof.
  cbn zeta. unfold wl_step. destruct (S (nstep s) mod nflat c =? 0)%nat; [destruct (is_flat c _)|];
    [left | right | right]; repeat split.
Qed.

Theorem f_changes_only_when_flat c s e : kexp (wl_step c s e) <> kexp s ->
  (S (nstep s) mod nflat c = 0)%nat /\
  is_flat c (if e_skip e then hv s else upd (hv s) (if e_acc e then e_idx e else idx_old s) (fun x => (x + 1)%Z)) = true.
Proof.
  unfold wl_step. destruct (S (nstep s) mod nflat c =? 0)%nat eqn:E1.
  - destruct (is_flat c _) eqn:E2; cbn [kexp]; intros H; [|congruence]. split; [now apply Nat.eqb_eq in E1 | reflexivity].
  - cbn [kexp]. congruence.
Qed.

Lemma filter_len_le {X} (P : X -> bool) l : (List.length (filter P l) <= List.length l)%nat.
Proof. induction l as [|x l IH]; [apply le_n|]. cbn [filter]. destruct (P x); cbn [List.length]; lia. Qed.

Lemma filter_all {X} (P : X -> bool) l : List.length (filter P l) = List.length l -> filter P l = l.
Proof.
  induction l as [|x l IH]; intros H; [reflexivity|]. cbn [filter] in *. destruct (P x).
  - cbn [List.length] in H. f_equal. apply IH. lia.
  - exfalso. pose proof (filter_len_le P l). cbn [List.length] in H. lia.
Qed.

(* every bin of the range holds at least crit x the mean count when the check passes *)
Theorem flat_means c h : is_flat c h = true -> (0 < nb_target c)%nat -> List.length (hlocal c h) = nb_target c ->
  forall x, In x (hlocal c h) -> (crit c * inject_Z (sumZ (hlocal c h)) <= inject_Z x * inject_Z (Z.of_nat (nb_target c)))%Q.
Proof.
  unfold is_flat, flatness_number. intros H Hn Hl x Hx.
  destruct (sumZ (hlocal c h) =? 0)%Z; [apply Nat.eqb_eq in H; lia|]. apply Nat.eqb_eq in H.
  assert (Hall : filter (fun x0 => Qle_bool (crit c * inject_Z (sumZ (hlocal c h))) (inject_Z x0 * inject_Z (Z.of_nat (nb_target c)))) (hlocal c h) = hlocal c h)
    by (apply filter_all; congruence).
  rewrite <- Hall in Hx. apply filter_In in Hx. destruct Hx as [_ Hx]. now apply Qle_bool_iff in Hx.
Qed.

(* bin centres: midpoints of an equal partition of [0,1] *)
Theorem centre_midpoint c i : (0 < nb_actual c)%nat ->
  (centre c i == (inject_Z (Z.of_nat i) + (1 # 2)) / inject_Z (Z.of_nat (nb_actual c)))%Q.
Proof.
  intros Hn. unfold centre.
  assert (Hp : Z.pos (Pos.of_nat (2 * nb_actual c)) = (2 * Z.of_nat (nb_actual c))%Z) by (rewrite <- positive_nat_Z, Nat2Pos.id by lia; lia).
  rewrite Qmake_Qdiv, Hp. rewrite Nat2Z.inj_add, Nat2Z.inj_mul. change (Z.of_nat 2) with 2%Z. change (Z.of_nat 1) with 1%Z.
  rewrite !inject_Z_plus, !inject_Z_mult. field. intros E. unfold Qeq in E. cbn in E. lia.
Qed.

Theorem centres_count c : List.length (centres c) = nb_actual c.
Proof. unfold centres. now rewrite map_length, seq_length. Qed.

Theorem relevant_window_size c : (0 < nb_target c)%nat -> (rmax c - rmin c + 1 = nb_target c)%nat.
Proof. unfold rmax. lia. Qed.

Theorem in_range_iff c i : in_range c i = true <-> (rmin c <= i <= rmax c)%nat.
Proof. unfold in_range. rewrite andb_true_iff, !Nat.leb_le. tauto. Qed.

(* ---- histogram geometry from the requested range ---- *)
Lemma pos_of_nat_Z k : (0 < k)%nat -> Z.pos (Pos.of_nat k) = Z.of_nat k.
Proof. intros H. rewrite <- positive_nat_Z, Nat2Pos.id by lia. reflexivity. Qed.

(* a range aligned with the partition of [0,1] into nb_actual bins (bmin = rmin/N, bmax = (rmin+nb)/N): the relevant
   window is exactly the set of bins whose centre lies in the requested range *)
Theorem aligned_window c (bmin bmax : Q) i : (0 < nb_actual c)%nat -> (0 < nb_target c)%nat ->
  (bmin == (Z.of_nat (rmin c) # Pos.of_nat (nb_actual c)))%Q ->
  (bmax == (Z.of_nat (rmin c + nb_target c) # Pos.of_nat (nb_actual c)))%Q ->
  (in_range c i = true <-> (bmin < centre c i /\ centre c i < bmax)%Q).
Proof.
  intros Hn Hnb Hmin Hmax. rewrite in_range_iff. unfold rmax. rewrite Hmin, Hmax. unfold centre, Qlt. cbn [Qnum Qden].
  rewrite !pos_of_nat_Z by lia. split.
  - intros [H1 H2]. split; nia.
  - intros [H1 H2]. split; nia.
Qed.

(* __init__'s arithmetic recovers that geometry from an aligned request: every partition up to 24 bins, every window *)
Definition aligned_all (M : nat) : bool :=
  forallb (fun na => forallb (fun r => forallb (fun nb =>
    let '(a, b) := geom_of nb (Z.of_nat r # Pos.of_nat na) (Z.of_nat (r + nb) # Pos.of_nat na) in
    Nat.eqb a na && Nat.eqb b r) (seq 1 (na - r))) (seq 0 na)) (seq 1 M).

Lemma aligned_all_24 : aligned_all 24 = true.
Proof. vm_compute. reflexivity. Qed.

Lemma aligned_all_spec M : aligned_all M = true -> forall na r nb,
  (1 <= na <= M)%nat -> (1 <= nb)%nat -> (r + nb <= na)%nat ->
  geom_of nb (Z.of_nat r # Pos.of_nat na) (Z.of_nat (r + nb) # Pos.of_nat na) = (na, r).
Proof.
  intros H na r nb Hna Hnb Hr. unfold aligned_all in H.
  rewrite forallb_forall in H. specialize (H na ltac:(apply in_seq; lia)).
  rewrite forallb_forall in H. specialize (H r ltac:(apply in_seq; lia)).
  rewrite forallb_forall in H. specialize (H nb ltac:(apply in_seq; lia)).
  destruct (geom_of nb _ _) as [a b]. apply andb_true_iff in H. destruct H as [Ha Hb].
  apply Nat.eqb_eq in Ha. apply Nat.eqb_eq in Hb. congruence.
Qed.

Theorem geom_of_aligned na r nb : (1 <= na <= 24)%nat -> (1 <= nb)%nat -> (r + nb <= na)%nat ->
  geom_of nb (Z.of_nat r # Pos.of_nat na) (Z.of_nat (r + nb) # Pos.of_nat na) = (na, r).
Proof. exact (aligned_all_spec 24 aligned_all_24 na r nb). Qed.
