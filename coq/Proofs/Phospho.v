(* Proofs/Phospho.v — C16: the recorded phosphosites are exactly the requested in-range S/T/Y
   positions since the last clear, first-set order, no repeats; derived values follow. *)
From Coq Require Import QArith ZArith List Bool Lia Arith.
From LC Require Import Core.Residue Core.Lists Core.QTools Spec.Delta Model.Delta Model.Phospho.
Import ListNotations.

Definition idx_of (z : Z) : nat := Z.to_nat (z - 1).

(* append the not-yet-present elements of xs to acc, in order *)
Definition addnew (acc xs : list nat) : list nat :=
  fold_left (fun acc x => if memn x acc then acc else acc ++ [x]) xs acc.

Lemma pseq_set_site o z : pseq (set_site o z) = pseq o.
Proof. unfold set_site. destruct (valid_site _ _); [|reflexivity]. destruct (memn _ _); reflexivity. Qed.

Lemma pseq_fold o req : pseq (fold_left set_site req o) = pseq o.
Proof. revert o. induction req as [|z req IH]; intros o; [reflexivity|]. cbn [fold_left]. rewrite IH. apply pseq_set_site. Qed.

Theorem seq_unchanged ops o : pseq (prun ops o) = pseq o.
Proof.
  revert o. induction ops as [|op ops IH]; intros o; [reflexivity|]. unfold prun in *. cbn [fold_left].
  rewrite IH. destruct op; [apply pseq_fold | reflexivity | reflexivity].
Qed.

Lemma psites_fold req : forall o,
  psites (fold_left set_site req o) = addnew (psites o) (map idx_of (filter (valid_site (pseq o)) req)).
Proof.
  induction req as [|z req IH]; intros o; [reflexivity|]. cbn [fold_left filter].
  rewrite IH, pseq_set_site. unfold set_site.
  destruct (valid_site (pseq o) z) eqn:E; [|reflexivity].
  cbn [map]. unfold addnew at 2. cbn [fold_left]. fold (idx_of z).
  destruct (memn (idx_of z) (psites o)); reflexivity.
Qed.

(* the requests that count: everything since the last clear *)
Definition since_clear (pre : list Z) (ops : list pop) : list Z :=
  fold_left (fun acc op => match op with PSet r => acc ++ r | PClear => [] | PQuery => acc end) ops pre.

Lemma addnew_app acc a b : addnew acc (a ++ b) = addnew (addnew acc a) b.
Proof. unfold addnew. apply fold_left_app. Qed.

Theorem sites_spec ops : forall o pre,
  psites o = addnew [] (map idx_of (filter (valid_site (pseq o)) pre)) ->
  psites (prun ops o) = addnew [] (map idx_of (filter (valid_site (pseq o)) (since_clear pre ops))).
Proof.
  induction ops as [|op ops IH]; intros o pre H; [exact H|].
  unfold prun, since_clear in *. cbn [fold_left]. destruct op as [req| |].
  - rewrite (IH (pstep o (PSet req)) (pre ++ req)); cbn [pstep]; rewrite pseq_fold; [reflexivity|].
    rewrite psites_fold, H, filter_app, map_app, addnew_app. reflexivity.
  - apply (IH {| pseq := pseq o; psites := [] |} []). reflexivity.
  - apply (IH o pre). exact H.
Qed.

Corollary sites_spec_fresh s ops :
  psites (prun ops {| pseq := s; psites := [] |}) = addnew [] (map idx_of (filter (valid_site s) (since_clear [] ops))).
Proof. apply (sites_spec ops {| pseq := s; psites := [] |} []). reflexivity. Qed.

(* addnew keeps first occurrences and never repeats *)
Lemma memn_In i l : memn i l = true <-> In i l.
Proof.
  unfold memn. rewrite existsb_exists. split.
  - intros [x [Hx E]]. apply Nat.eqb_eq in E. now subst.
  - intros H. exists i. split; [exact H | apply Nat.eqb_refl].
Qed.


Lemma NoDup_snoc (l : list nat) x : NoDup l -> ~ In x l -> NoDup (l ++ [x]).
Proof.
  intros H Hx. induction H as [|y l Hy _ IH]; [constructor; [intros []|constructor]|].
  cbn [app]. constructor.
  - rewrite in_app_iff. intros [Hin|[->|[]]]; [contradiction | apply Hx; left; reflexivity].
  - apply IH. intros Hin. apply Hx. right. exact Hin.
Qed.

Lemma addnew_nodup xs : forall acc, NoDup acc -> NoDup (addnew acc xs).
Proof.
  induction xs as [|x xs IH]; intros acc H; [exact H|]. cbn [addnew fold_left]. apply IH.
  destruct (memn x acc) eqn:E; [exact H|].
  apply NoDup_snoc; [exact H|]. intros Hin. apply memn_In in Hin. congruence.
Qed.

Lemma addnew_In xs : forall acc i, In i (addnew acc xs) <-> In i acc \/ In i xs.
Proof.
  induction xs as [|x xs IH]; intros acc i; cbn [addnew fold_left]; [cbn [In]; tauto|].
  fold (addnew (if memn x acc then acc else acc ++ [x]) xs). rewrite IH.
  destruct (memn x acc) eqn:E.
  - apply memn_In in E. cbn [In]. split; [tauto|]. intros [H|[->|H]]; tauto.
  - rewrite in_app_iff. cbn [In]. tauto.
Qed.

Theorem sites_nodup s ops : NoDup (psites (prun ops {| pseq := s; psites := [] |})).
Proof. rewrite sites_spec_fresh. apply addnew_nodup. constructor. Qed.

(* every recorded site is an in-range S/T/Y position that was requested since the last clear *)
Theorem sites_in_range_STY s ops i : In i (psites (prun ops {| pseq := s; psites := [] |})) ->
  (i < List.length s)%nat /\ (exists a, nth_error s i = Some a /\ sty a = true) /\
  In (Z.of_nat (S i)) (since_clear [] ops).
Proof.
  rewrite sites_spec_fresh, addnew_In. intros [[]|H]. apply in_map_iff in H. destruct H as [z [Hz Hin]].
  apply filter_In in Hin. destruct Hin as [Hin Hv]. unfold valid_site in Hv.
  apply andb_prop in Hv. destruct Hv as [Hr Hs]. apply andb_prop in Hr. destruct Hr as [H1 H2].
  apply Z.leb_le in H1. apply Z.leb_le in H2. unfold idx_of in *. subst i.
  split; [lia|]. split.
  - destruct (nth_error s (Z.to_nat (z - 1))) as [a|]; [|discriminate]. exists a. split; [reflexivity | exact Hs].
  - replace (Z.of_nat (S (Z.to_nat (z - 1)))) with z by lia. exact Hin.
Qed.

(* conversely every requested valid position is recorded *)
Theorem requested_valid_recorded s ops z : In z (since_clear [] ops) -> valid_site s z = true ->
  In (idx_of z) (psites (prun ops {| pseq := s; psites := [] |})).
Proof.
  intros Hin Hv. rewrite sites_spec_fresh, addnew_In. right. apply in_map. apply filter_In. split; assumption.
Qed.

(* get_phosphosequence: E at exactly the recorded positions *)
Lemma subst_gen (f : nat -> aa -> aa) s : forall k i,
  nth_error (map (fun p => f (fst p) (snd p)) (combine (seq k (List.length s)) s)) i =
  option_map (f (k + i)%nat) (nth_error s i).
Proof.
  induction s as [|a s IH]; intros k i; [destruct i; reflexivity|].
  cbn [List.length seq combine map]. destruct i as [|i]; cbn [nth_error option_map fst snd].
  - now rewrite Nat.add_0_r.
  - rewrite IH. now replace (S k + i)%nat with (k + S i)%nat by lia.
Qed.

Theorem phosphoseq_spec o i :
  nth_error (phosphoseq o) i = option_map (fun a => if memn i (psites o) then Glu else a) (nth_error (pseq o) i).
Proof. unfold phosphoseq, subst_at. apply (subst_gen (fun j a => if memn j (psites o) then Glu else a) (pseq o) 0 i). Qed.

Theorem phosphoseq_length o : List.length (phosphoseq o) = List.length (pseq o).
Proof. unfold phosphoseq, subst_at. rewrite map_length, combine_length, seq_length. lia. Qed.


Lemma nth_error_ext {A} (a b : list A) : (forall i, nth_error a i = nth_error b i) -> a = b.
Proof.
  revert b. induction a as [|x a IH]; intros [|y b] H; try reflexivity.
  - specialize (H 0%nat). discriminate.
  - specialize (H 0%nat). discriminate.
  - pose proof (H 0%nat) as H0. cbn in H0. injection H0 as ->. f_equal. apply IH. intros i. exact (H (S i)).
Qed.

Theorem phosphoseq_no_sites s : subst_at s [] = s.
Proof.
  apply nth_error_ext. intros i. unfold subst_at.
  rewrite (subst_gen (fun j a => if memn j [] then Glu else a) s 0 i). cbn [memn existsb].
  destruct (nth_error s i); reflexivity.
Qed.

(* the distribution enumerates all 2^k on/off assignments in binary counting order *)
Theorem bitsets_length k : List.length (bitsets k) = (2 ^ k)%nat.
Proof. induction k as [|k IH]; [reflexivity|]. cbn [bitsets]. rewrite app_length, !map_length, IH. cbn [Nat.pow]. lia. Qed.


Lemma map_cons_nth (b : bool) l j : (j < List.length l)%nat -> nth j (map (cons b) l) [] = b :: nth j l [].
Proof. intros H. rewrite (nth_indep _ [] (b :: [])) by (rewrite map_length; exact H). apply (map_nth (cons b)). Qed.

Theorem bitsets_nth k : forall j, (j < 2 ^ k)%nat -> nth j (bitsets k) [] = bits_msb k j.
Proof.
  induction k as [|k IH]; intros j Hj.
  - cbn in Hj. assert (j = 0)%nat by lia. subst. reflexivity.
  - cbn [bitsets bits_msb]. cbn [Nat.pow] in Hj.
    assert (Hp : (0 < 2 ^ k)%nat) by (apply Nat.neq_0_lt_0; apply Nat.pow_nonzero; lia).
    destruct (2 ^ k <=? j)%nat eqn:E.
    + apply Nat.leb_le in E.
      rewrite app_nth2 by (rewrite map_length, bitsets_length; lia). rewrite map_length, bitsets_length.
      rewrite map_cons_nth by (rewrite bitsets_length; lia). f_equal.
      rewrite IH by lia. f_equal.
      rewrite <- (Nat.mod_small (j - 2 ^ k) (2 ^ k)) by lia.
      replace j with (j - 2 ^ k + 1 * 2 ^ k)%nat at 2 by lia. now rewrite Nat.mod_add by lia.
    + apply Nat.leb_gt in E.
      rewrite app_nth1 by (rewrite map_length, bitsets_length; lia).
      rewrite map_cons_nth by (rewrite bitsets_length; lia). f_equal.
      rewrite IH by lia. now rewrite Nat.mod_small by lia.
Qed.

Theorem states_length o : List.length (states o) = (2 ^ List.length (psites o))%nat.
Proof. unfold states. now rewrite map_length, bitsets_length. Qed.

Theorem states_nth o j : (j < 2 ^ List.length (psites o))%nat ->
  nth j (states o) ([], []) =
  (bits_msb (List.length (psites o)) j,
   subst_at (pseq o) (chosen (psites o) (bits_msb (List.length (psites o)) j))).
Proof.
  intros Hj. unfold states.
  rewrite (nth_indep _ ([], []) ((fun bs => (bs, subst_at (pseq o) (chosen (psites o) bs))) []))
    by (rewrite map_length, bitsets_length; exact Hj).
  rewrite (map_nth (fun bs => (bs, subst_at (pseq o) (chosen (psites o) bs)))). now rewrite bitsets_nth.
Qed.
