(* Proofs/Polygons.v — C19: a sequence's marker (f+, f-) lies inside the drawn region whose number
   get_phasePlotRegion assigns to it; the polygons cover the simplex; interiors classify. *)
From Coq Require Import QArith Qabs ZArith List Bool Lqa Lia.
From LC Require Import Spec.Polygons Model.Region.
Import ListNotations.
Local Open Scope Q_scope.

(* the cascade on fractions, as phasePlotRegion evaluates it *)
Definition regionFrac (fp fn : Q) : Z := m_regionQ (fp + fn) (fp - fn) fp fn.

Ltac edge_cases H :=
  cbn [edges edges_from poly Z.eqb Pos.eqb] in H;
  repeat (destruct H as [H|H]; [subst; cbn [fst snd]; unfold cross; cbn [fst snd]; lra|]); try destruct H.

Lemma Qle_bool_false a b : Qle_bool a b = false -> b < a.
Proof. intros H. apply Qnot_le_lt. intros E. apply Qle_bool_iff in E. congruence. Qed.

Theorem marker_in_own_region fp fn : 0 <= fp -> 0 <= fn -> fp + fn <= 1 ->
  inside (poly (regionFrac fp fn)) (fp, fn) /\ (1 <= regionFrac fp fn <= 5)%Z.
Proof.
  intros Hp Hn Hs. unfold regionFrac, m_regionQ. cbn zeta.
  destruct (Qle_bool (1 # 4) (fp + fn)) eqn:E1; cbn [negb andb].
  2:{ apply Qle_bool_false in E1. split; [|lia]. intros e He. edge_cases He. }
  apply Qle_bool_iff in E1.
  destruct (Qle_bool (fp + fn) (7 # 20)) eqn:E2; cbn [negb andb].
  { apply Qle_bool_iff in E2. split; [|lia]. intros e He. edge_cases He. }
  apply Qle_bool_false in E2.
  destruct (Qle_bool (7 # 20) (Qabs (fp - fn))) eqn:E3; cbn [negb andb].
  2:{ apply Qle_bool_false in E3. apply Qabs_Qlt_condition in E3. destruct E3 as [E3a E3b].
      split; [|lia]. intros e He. edge_cases He. }
  apply Qle_bool_iff in E3.
  destruct (Qle_bool fp (7 # 20)) eqn:E4; cbn [negb].
  - apply Qle_bool_iff in E4.
    destruct (Qle_bool fn (7 # 20)) eqn:E5; cbn [negb].
    + exfalso. apply Qle_bool_iff in E5.
      destruct (Qlt_le_dec (fp - fn) 0) as [Hneg|Hpos].
      * rewrite Qabs_neg in E3 by (apply Qlt_le_weak; exact Hneg). lra.
      * rewrite Qabs_pos in E3 by exact Hpos. lra.
    + apply Qle_bool_false in E5. split; [|lia].
      assert (Hd : 7 # 20 <= fn - fp).
      { destruct (Qlt_le_dec (fp - fn) 0) as [Hneg|Hpos].
        - rewrite Qabs_neg in E3 by (apply Qlt_le_weak; exact Hneg). lra.
        - rewrite Qabs_pos in E3 by exact Hpos. lra. }
      intros e He. edge_cases He.
  - apply Qle_bool_false in E4.
    destruct (Qle_bool fn (7 # 20)) eqn:E5; cbn [negb].
    + apply Qle_bool_iff in E5. split; [|lia].
      assert (Hd : 7 # 20 <= fp - fn).
      { destruct (Qlt_le_dec (fp - fn) 0) as [Hneg|Hpos].
        - rewrite Qabs_neg in E3 by (apply Qlt_le_weak; exact Hneg). lra.
        - rewrite Qabs_pos in E3 by exact Hpos. lra. }
      intros e He. edge_cases He.
    + exfalso. apply Qle_bool_false in E5.
      destruct (Qlt_le_dec (fp - fn) 0) as [Hneg|Hpos].
      * rewrite Qabs_neg in E3 by (apply Qlt_le_weak; exact Hneg). lra.
      * rewrite Qabs_pos in E3 by exact Hpos. lra.
Qed.

(* strictly inside a drawn polygon => that is the region assigned (boundaries are shared) *)
Theorem interior_classifies r fp fn : (1 <= r <= 5)%Z -> inside_strict (poly r) (fp, fn) -> regionFrac fp fn = r.
Proof.
  intros Hr Hin.
  assert (Er : r = 1%Z \/ r = 2%Z \/ r = 3%Z \/ r = 4%Z \/ r = 5%Z) by lia.
  unfold inside_strict in Hin.
  destruct Er as [E|[E|[E|[E|E]]]]; subst r; cbn [poly Z.eqb Pos.eqb edges edges_from] in Hin.
  all: repeat match goal with
       | H : forall e, In e (?x :: ?l) -> _ |- _ =>
           let H1 := fresh "E" in pose proof (H x (or_introl eq_refl)) as H1;
           assert (forall e, In e l -> cross (fst e) (snd e) (fp, fn) < 0) by (intros e He; apply H; right; exact He);
           clear H
       end.
  all: unfold cross in *; cbn [fst snd] in *.
  all: unfold regionFrac, m_regionQ; cbn zeta.
  all: repeat match goal with
       | |- context [Qle_bool ?a ?b] =>
           let E := fresh "B" in destruct (Qle_bool a b) eqn:E; [apply Qle_bool_iff in E | apply Qle_bool_false in E]
       end; cbn [negb andb]; try reflexivity; exfalso;
       try (match goal with H : context [Qabs ?t] |- _ =>
              destruct (Qlt_le_dec t 0) as [Hneg|Hpos];
              [rewrite Qabs_neg in H by (apply Qlt_le_weak; exact Hneg) | rewrite Qabs_pos in H by exact Hpos] end); lra.
Qed.
