(* Proofs/PiTotal.v — C09: get_isoelectric_point never raises.  Part 1 (pure Q): for EVERY oracle f
   that is approximately non-increasing, approximately 1-Lipschitz on short distances, not very
   negative at pH <= 1 and not very positive at pH >= 15, the loop returns within 28 evaluations;
   the escape clause fires at most once (Arg-rich sequences, pI > 14). *)
From Coq Require Import QArith Qabs ZArith List Bool Lia Lqa.
From LC Require Import Model.Titration.
Import ListNotations.
Local Open Scope Q_scope.

Fixpoint hp (k : nat) : Q := match k with O => 1 | S k' => hp k' * (1 # 2) end.

Lemma hp_pos k : 0 < hp k.
Proof. induction k as [|k IH]; cbn [hp]; lra. Qed.

Lemma hp_anti k k' : (k <= k')%nat -> hp k' <= hp k.
Proof.
  induction 1 as [|m _ IH]; [lra|]. cbn [hp]. pose proof (hp_pos m). lra.
Qed.

Lemma hp_4 : hp 4 == 1 # 16.  Proof. reflexivity. Qed.
Lemma hp_5 : hp 5 == 1 # 32.  Proof. reflexivity. Qed.
Lemma hp_8 : hp 8 == 1 # 256. Proof. reflexivity. Qed.
Lemma hp_9 : hp 9 == 1 # 512. Proof. reflexivity. Qed.

(* more fuel never changes a result that was reached *)
Lemma pi_fuel_mono (f : Q -> Q) m : forall n lo hi bc ec prev vis x tr,
  pi_loop f n lo hi bc ec prev vis = (Some x, tr) -> pi_loop f (n + m) lo hi bc ec prev vis = (Some x, tr).
Proof.
  induction n as [|n IH]; intros lo hi bc ec prev vis x tr H; cbn [pi_loop] in H; [discriminate|].
  cbn [Nat.add pi_loop].
  destruct (Nat.eqb (S bc) 20 && Nat.eqb ec 10); [discriminate|].
  set (hi1 := if Nat.eqb (S bc) 20 && negb (Qle_bool prev 0) then hi + 1 else hi) in *.
  set (lo1 := if Nat.eqb (S bc) 20 && Qle_bool prev 0 then lo - 1 else lo) in *.
  set (mid := Qred ((1 # 2) * (hi1 + lo1))) in *.
  destruct (negb (Qle_bool (f mid) (2 # 100))); [apply IH; exact H|].
  destruct (negb (Qle_bool (- (2 # 100)) (f mid))); [apply IH; exact H|].
  exact H.
Qed.

Lemma pi_evaluations_len (f : Q -> Q) : forall n lo hi bc ec prev vis r tr,
  pi_loop f n lo hi bc ec prev vis = (r, tr) -> (List.length tr <= List.length vis + n)%nat.
Proof.
  induction n as [|n IH]; intros lo hi bc ec prev vis r tr H; cbn [pi_loop] in H.
  - injection H as _ <-. rewrite rev_length. lia.
  - destruct (Nat.eqb (S bc) 20 && Nat.eqb ec 10); [injection H as _ <-; rewrite rev_length; lia|].
    set (hi1 := if Nat.eqb (S bc) 20 && negb (Qle_bool prev 0) then hi + 1 else hi) in *.
    set (lo1 := if Nat.eqb (S bc) 20 && Qle_bool prev 0 then lo - 1 else lo) in *.
    set (mid := Qred ((1 # 2) * (hi1 + lo1))) in *.
    destruct (negb (Qle_bool (f mid) (2 # 100))); [apply IH in H; cbn [List.length] in H; lia|].
    destruct (negb (Qle_bool (- (2 # 100)) (f mid))); [apply IH in H; cbn [List.length] in H; lia|].
    injection H as _ <-. rewrite ?app_length, ?rev_length. cbn [List.length]. lia.
Qed.

Section Bisect.
Variable f : Q -> Q.
Hypothesis P1 : forall x y, x <= y -> f y <= f x + (2 # 1000).
Hypothesis P2 : forall x y, x <= y -> y - x <= 1 # 16 -> f x - f y <= (y - x) + (2 # 1000).
Hypothesis P3a : forall x, x <= 1 -> - (11 # 1000) <= f x.
Hypothesis P3b : forall x, 15 <= x -> f x <= 11 # 1000.

Definition CertLo (lo : Q) : Prop := exists z, lo <= z /\ 2 # 100 < f z.
Definition CertHi (hi : Q) : Prop := exists z, z <= hi /\ f z < - (2 # 100).

Lemma certlo_lt15 lo : CertLo lo -> lo + (1 # 256) < 15.
Proof.
  intros [z [Hz Hf]]. destruct (Qlt_le_dec z 15) as [Hlt|Hge]; [|pose proof (P3b z Hge); lra].
  destruct (Qlt_le_dec (1 # 16) (15 - z)) as [Hfar|Hnear]; [lra|].
  pose proof (P2 z 15 ltac:(lra) Hnear). pose proof (P3b 15 ltac:(lra)). lra.
Qed.

Lemma certhi_gt1 hi : CertHi hi -> 1 + (1 # 256) < hi.
Proof.
  intros [z [Hz Hf]]. destruct (Qlt_le_dec 1 z) as [Hlt|Hge]; [|pose proof (P3a z Hge); lra].
  destruct (Qlt_le_dec (1 # 16) (z - 1)) as [Hfar|Hnear]; [lra|].
  pose proof (P2 1 z ltac:(lra) Hnear). pose proof (P3a 1 ltac:(lra)). lra.
Qed.

Lemma cert_both lo hi : CertLo lo -> CertHi hi -> lo + (1 # 32) < hi.
Proof.
  intros [z1 [Hz1 Hf1]] [z2 [Hz2 Hf2]].
  destruct (Qlt_le_dec z1 z2) as [Hlt|Hge]; [|pose proof (P1 z2 z1 Hge); lra].
  destruct (Qlt_le_dec (1 # 16) (z2 - z1)) as [Hfar|Hnear]; [lra|].
  pose proof (P2 z1 z2 ltac:(lra) Hnear). lra.
Qed.

Definition Inv0 (lo hi : Q) (bc : nat) (prev : Q) : Prop :=
  (bc <= 19)%nat /\ 0 <= lo /\ lo <= hi /\ hi <= 14 /\ hi - lo <= 14 * hp bc /\
  (lo == 0 \/ CertLo lo) /\
  ((hi == 14 /\ ((1 <= bc)%nat -> 2 # 100 < prev)) \/ CertHi hi).

Definition Inv1 (lo hi : Q) (bc : nat) : Prop :=
  (bc <= 19)%nat /\ lo <= hi /\ hi <= 15 /\ hi - lo <= hp bc /\ CertLo lo /\ (hi == 15 \/ CertHi hi).

Lemma inv1_bc lo hi bc : Inv1 lo hi bc -> (bc <= 7)%nat.
Proof.
  intros (_ & Hle & H15 & Hw & HL & HH).
  destruct (le_lt_dec bc 7) as [|Hbig]; [assumption|exfalso].
  pose proof (hp_anti 8 bc ltac:(lia)) as Hh. rewrite hp_8 in Hh.
  destruct HH as [E|HH].
  - pose proof (certlo_lt15 lo HL). lra.
  - pose proof (cert_both lo hi HL HH). lra.
Qed.

Lemma inv0_last lo hi prev : Inv0 lo hi 19 prev -> CertLo lo /\ hi == 14 /\ 2 # 100 < prev /\ hi - lo <= 1.
Proof.
  intros (_ & H0 & Hle & H14 & Hw & HL & HH).
  pose proof (hp_anti 9 19 ltac:(lia)) as Hh. rewrite hp_9 in Hh.
  destruct HL as [E|HL]; destruct HH as [[E' Hp]|HH].
  - exfalso. lra.
  - exfalso. pose proof (certhi_gt1 hi HH). lra.
  - repeat split; [exact HL | exact E' | apply Hp; lia | lra].
  - exfalso. pose proof (cert_both lo hi HL HH). lra.
Qed.

Lemma mid_eq a b : Qred ((1 # 2) * (a + b)) == (a + b) * (1 # 2).
Proof. rewrite Qred_correct. ring. Qed.

Lemma gt_th c : negb (Qle_bool c (2 # 100)) = true -> 2 # 100 < c.
Proof.
  intros H. apply negb_true_iff in H. apply Qnot_le_lt. intros E. apply Qle_bool_iff in E. congruence.
Qed.
Lemma lt_mth c : negb (Qle_bool (- (2 # 100)) c) = true -> c < - (2 # 100).
Proof.
  intros H. apply negb_true_iff in H. apply Qnot_le_lt. intros E. apply Qle_bool_iff in E. congruence.
Qed.

(* round 1 (after the one escape): at most 8 more evaluations *)
Lemma round1 : forall fuel lo hi bc prev vis, Inv1 lo hi bc -> (8 <= bc + fuel)%nat ->
  exists x tr, pi_loop f fuel lo hi bc 1 prev vis = (Some x, tr).
Proof.
  induction fuel as [|fuel IH]; intros lo hi bc prev vis HI Hfuel.
  - pose proof (inv1_bc _ _ _ HI). lia.
  - pose proof (inv1_bc _ _ _ HI) as Hbc. destruct HI as (_ & Hle & H15 & Hw & HL & HH).
    cbn [pi_loop].
    replace (Nat.eqb (S bc) 20) with false by (symmetry; apply Nat.eqb_neq; lia). cbn [andb].
    set (mid := Qred ((1 # 2) * (hi + lo))).
    assert (Em : mid == (hi + lo) * (1 # 2)) by apply mid_eq.
    destruct (negb (Qle_bool (f mid) (2 # 100))) eqn:E1.
    { apply gt_th in E1. apply IH; [|lia].
      repeat split; [lia | lra | lra | cbn [hp]; lra | exists mid; split; [lra | exact E1] | exact HH]. }
    destruct (negb (Qle_bool (- (2 # 100)) (f mid))) eqn:E2.
    { apply lt_mth in E2. apply IH; [|lia].
      repeat split; [lia | lra | lra | cbn [hp]; lra | exact HL | right; exists mid; split; [lra | exact E2]]. }
    eexists; eexists; reflexivity.
Qed.

(* round 0 *)
Lemma round0 : forall fuel lo hi bc prev vis, Inv0 lo hi bc prev -> (28 <= bc + fuel)%nat ->
  exists x tr, pi_loop f fuel lo hi bc 0 prev vis = (Some x, tr).
Proof.
  induction fuel as [|fuel IH]; intros lo hi bc prev vis HI Hfuel.
  - destruct HI as (Hbc & _). lia.
  - destruct (Nat.eq_dec bc 19) as [->|Hne].
    + (* the escape step *)
      destruct (inv0_last _ _ _ HI) as (HL & E14 & Hprev & Hw1).
      destruct HI as (_ & H0 & Hle & H14 & Hw & _ & _).
      cbn [pi_loop]. change (Nat.eqb 20 20) with true. change (Nat.eqb 0 10) with false. cbn [andb].
      replace (Qle_bool prev 0) with false
        by (symmetry; apply not_true_iff_false; intros E; apply Qle_bool_iff in E; lra).
      cbn [negb].
      set (mid := Qred ((1 # 2) * (hi + 1 + lo))).
      assert (Em : mid == (hi + 1 + lo) * (1 # 2)) by apply mid_eq.
      destruct (negb (Qle_bool (f mid) (2 # 100))) eqn:E1.
      { apply gt_th in E1. apply round1; [|lia].
        repeat split; [lia | lra | lra | cbn [hp]; lra | exists mid; split; [lra | exact E1] | left; lra]. }
      destruct (negb (Qle_bool (- (2 # 100)) (f mid))) eqn:E2.
      { apply lt_mth in E2. apply round1; [|lia].
        repeat split; [lia | lra | lra | cbn [hp]; lra | exact HL | right; exists mid; split; [lra | exact E2]]. }
      eexists; eexists; reflexivity.
    + destruct HI as (Hbc & H0 & Hle & H14 & Hw & HL & HH).
      cbn [pi_loop].
      replace (Nat.eqb (S bc) 20) with false by (symmetry; apply Nat.eqb_neq; lia). cbn [andb].
      set (mid := Qred ((1 # 2) * (hi + lo))).
      assert (Em : mid == (hi + lo) * (1 # 2)) by apply mid_eq.
      destruct (negb (Qle_bool (f mid) (2 # 100))) eqn:E1.
      { apply gt_th in E1. apply IH; [|lia].
        repeat split; [lia | lra | lra | lra | cbn [hp]; lra | right; exists mid; split; [lra | exact E1] |].
        destruct HH as [[E Hp]|HH]; [left; split; [exact E | intros _; exact E1] | right; exact HH]. }
      destruct (negb (Qle_bool (- (2 # 100)) (f mid))) eqn:E2.
      { apply lt_mth in E2. apply IH; [|lia].
        repeat split; [lia | lra | lra | lra | cbn [hp]; lra | exact HL | right; exists mid; split; [lra | exact E2]]. }
      eexists; eexists; reflexivity.
Qed.

Lemma start_inv : Inv0 0 14 0 0.
Proof.
  repeat split; [lia | lra | lra | lra | cbn [hp]; lra | left; reflexivity | left; split; [reflexivity | intros H; lia]].
Qed.

Theorem bisect_total : exists x tr, isoelectric f = (Some x, tr).
Proof. unfold isoelectric. apply round0; [exact start_inv | lia]. Qed.

(* ... and 28 evaluations are enough *)
Theorem bisect_total_28 : exists x tr, isoelectric f = (Some x, tr) /\ (List.length tr <= 28)%nat.
Proof.
  destruct (round0 28 0 14 0 0 [] start_inv ltac:(lia)) as [x [tr H]].
  exists x, tr. split.
  - unfold isoelectric. change 221%nat with (28 + 193)%nat. apply pi_fuel_mono. exact H.
  - apply pi_evaluations_len in H. exact H.
Qed.
End Bisect.

(* the four conditions are satisfiable, and the escape clause is needed: root at pH 14.5 *)
Lemma oracle_example :
  let f := fun x : Q => ((29 # 2) - x) * (1 # 8) in
  ((forall x y, x <= y -> f y <= f x + (2 # 1000)) /\
   (forall x y, x <= y -> y - x <= 1 # 16 -> f x - f y <= (y - x) + (2 # 1000)) /\
   (forall x, x <= 1 -> - (11 # 1000) <= f x) /\ (forall x, 15 <= x -> f x <= 11 # 1000)) /\
  fst (isoelectric f) = Some (7602169 # 524288) /\ List.length (snd (isoelectric f)) = 20%nat.
Proof.
  cbv zeta. split; [|split; vm_compute; reflexivity].
  repeat split; intros; lra.
Qed.
