(* Core/QTools.v — rational helpers used by every numeric model and by the
   correspondence predicates (which run inside Coq). *)
From Coq Require Import QArith Qabs Qreduction ZArith List Bool Lia.
Import ListNotations.
Local Open Scope Q_scope.

Definition Qmaxb (a b : Q) : Q := if Qle_bool a b then b else a.

(* tolerance of the value-agreement rule (DESIGN §2): 1e-9, relative above 1 *)
Definition tol : Q := 1 # 1000000000.

(* implementation float x (as an exact dyadic rational) agrees with model value q *)
Definition close (x q : Q) : bool :=
  Qle_bool (Qabs (x - q)) (tol * Qmaxb 1 (Qabs q)).

(* q is within rounding distance of the decision boundary b *)
Definition near (q b : Q) : bool :=
  Qle_bool (Qabs (q - b)) (tol * Qmaxb 1 (Qabs b)).

Fixpoint sumQ (l : list Q) : Q :=
  match l with [] => 0 | x :: l' => x + sumQ l' end.

Definition sqQ (x : Q) : Q := x * x.

Lemma sqQ_nonneg x : 0 <= sqQ x.
Proof.
  unfold sqQ. destruct (Qlt_le_dec x 0) as [H|H].
  - setoid_replace (x * x) with ((-x) * (-x)) by ring.
    apply Qmult_le_0_compat; apply (Qopp_le_compat x 0); apply Qlt_le_weak; exact H.
  - apply Qmult_le_0_compat; exact H.
Qed.

Lemma sumQ_app a b : sumQ (a ++ b) == sumQ a + sumQ b.
Proof. induction a as [|x a IH]; simpl; [ring | rewrite IH; ring]. Qed.

Lemma sumQ_rev a : sumQ (rev a) == sumQ a.
Proof.
  induction a as [|x a IH]; simpl; [reflexivity|].
  rewrite sumQ_app, IH. simpl. ring.
Qed.

Lemma sumQ_nonneg l : (forall x, In x l -> 0 <= x) -> 0 <= sumQ l.
Proof.
  induction l as [|x l IH]; simpl; intros H; [apply Qle_refl|].
  setoid_replace 0 with (0 + 0) by ring.
  apply Qplus_le_compat; [apply H; left; reflexivity | apply IH; intros y Hy; apply H; right; exact Hy].
Qed.

Lemma sumQ_map_ext {A} (f g : A -> Q) l :
  (forall x, In x l -> f x == g x) -> sumQ (map f l) == sumQ (map g l).
Proof.
  induction l as [|x l IH]; simpl; intros H; [reflexivity|].
  rewrite (H x (or_introl eq_refl)), IH; [reflexivity|].
  intros y Hy. apply H. right. exact Hy.
Qed.

Lemma sumQ_map_zero {A} (f : A -> Q) l : (forall x, In x l -> f x == 0) -> sumQ (map f l) == 0.
Proof.
  induction l as [|x l IH]; simpl; intros H; [reflexivity|].
  rewrite (H x (or_introl eq_refl)), IH; [ring|]. intros y Hy. apply H. right. exact Hy.
Qed.

(* grids used by the bounded translator ties *)
Definition zrange (lo hi : Z) : list Z := map (fun k => (lo + Z.of_nat k)%Z) (seq 0 (Z.to_nat (hi - lo + 1))).
Definition qz (z : Z) : Q := inject_Z z.
Fixpoint lookupQ {K} (eqb : K -> K -> bool) (k : K) (l : list (K * Q)) : option Q :=
  match l with [] => None | (k', v) :: l' => if eqb k k' then Some v else lookupQ eqb k l' end.
Definition oQeqb (a b : option Q) : bool :=
  match a, b with Some x, Some y => Qeq_bool x y | None, None => true | _, _ => false end.
