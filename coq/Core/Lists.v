(* Core/Lists.v — counting and sliding windows over lists. *)
From Coq Require Import List Bool Lia Permutation Arith ZArith.
Import ListNotations.

Section Blobs.
Context {A : Type}.

(* the w-wide window starting at 0-based index i *)
Definition blob (w i : nat) (l : list A) : list A := firstn w (skipn i l).
(* all len-w+1 full windows, in order; [] if w > len *)
Definition blobs (w : nat) (l : list A) : list (list A) :=
  map (fun i => blob w i l) (seq 0 (length l + 1 - w)).

Lemma blobs_length w l : length (blobs w l) = length l + 1 - w.
Proof. unfold blobs. now rewrite map_length, seq_length. Qed.

Lemma blobs_too_long w l : length l < w -> blobs w l = [].
Proof. intros H. unfold blobs. replace (length l + 1 - w) with 0 by lia. reflexivity. Qed.

Lemma blob_length w i l : i + w <= length l -> length (blob w i l) = w.
Proof. intros H. unfold blob. rewrite firstn_length, skipn_length. lia. Qed.

Lemma blobs_In b w l : In b (blobs w l) -> exists i, i + w <= length l /\ b = blob w i l.
Proof.
  unfold blobs. rewrite in_map_iff. intros [i [Hb Hi]]. apply in_seq in Hi.
  exists i. split; [lia | now symmetry].
Qed.

Lemma blobs_nth w l i d : i < length l + 1 - w -> nth i (blobs w l) d = blob w i l.
Proof.
  intros H. unfold blobs.
  rewrite (nth_indep _ d (blob w 0 l)) by (rewrite map_length, seq_length; lia).
  rewrite (map_nth (fun i => blob w i l)), seq_nth by lia. reflexivity.
Qed.

Lemma firstn_skipn_rev (l : list A) (w i : nat) :
  i + w <= length l ->
  firstn w (skipn i (rev l)) = rev (firstn w (skipn (length l - w - i) l)).
Proof.
  intros H.
  rewrite <- (firstn_skipn (length l - w - i) l) at 1.
  rewrite rev_app_distr.
  set (a := firstn (length l - w - i) l). set (b := skipn (length l - w - i) l).
  assert (Hb : length b = w + i) by (unfold b; rewrite skipn_length; lia).
  rewrite <- (firstn_skipn w b) at 1. rewrite rev_app_distr.
  set (b1 := firstn w b). set (b2 := skipn w b).
  assert (Hb2 : length (rev b2) = i) by (rewrite rev_length; unfold b2; rewrite skipn_length; lia).
  assert (Hb1 : length (rev b1) = w) by (rewrite rev_length; unfold b1; rewrite firstn_length; lia).
  rewrite <- app_assoc.
  rewrite skipn_app, Hb2, Nat.sub_diag. rewrite skipn_all2 by lia. cbn [app skipn].
  rewrite firstn_app, Hb1, Nat.sub_diag. rewrite firstn_all2 by lia. cbn [firstn]. now rewrite app_nil_r.
Qed.

Lemma blobs_rev (w : nat) (l : list A) : 0 < w ->
  blobs w (rev l) = rev (map (@rev A) (blobs w l)).
Proof.
  intros Hw. unfold blobs. rewrite rev_length. set (n := length l + 1 - w).
  rewrite map_map, <- map_rev.
  apply nth_ext with (d := []) (d' := []).
  - now rewrite !map_length, rev_length.
  - intros k Hk. rewrite map_length, seq_length in Hk.
    rewrite (nth_indep _ [] (blob w 0 (rev l))) by (rewrite map_length, seq_length; lia).
    rewrite (map_nth (fun i => blob w i (rev l))), seq_nth by lia.
    rewrite (nth_indep _ [] (rev (blob w 0 l))) by (rewrite map_length, rev_length, seq_length; lia).
    rewrite (map_nth (fun i => rev (blob w i l))).
    rewrite rev_nth by (rewrite seq_length; lia). rewrite seq_length, seq_nth by lia.
    unfold blob. cbn [plus]. rewrite firstn_skipn_rev by (unfold n in *; lia).
    f_equal. f_equal. f_equal. unfold n in *. lia.
Qed.
End Blobs.

Lemma blob_map {A B} (f : A -> B) w i l : blob w i (map f l) = map f (blob w i l).
Proof. unfold blob. now rewrite skipn_map, firstn_map. Qed.

Lemma blobs_map {A B} (f : A -> B) w l : blobs w (map f l) = map (map f) (blobs w l).
Proof.
  unfold blobs. rewrite map_length, map_map. apply map_ext. intros i. apply blob_map.
Qed.

(* counting with a boolean predicate, in Z *)
Local Open Scope Z_scope.
Fixpoint cnt {A} (f : A -> bool) (l : list A) : Z :=
  match l with [] => 0 | x :: l' => (if f x then 1 else 0) + cnt f l' end.

Lemma cnt_app {A} (f : A -> bool) a b : cnt f (a ++ b) = cnt f a + cnt f b.
Proof. induction a as [|x a IH]; simpl; [reflexivity | rewrite IH; lia]. Qed.

Lemma cnt_rev {A} (f : A -> bool) a : cnt f (rev a) = cnt f a.
Proof. induction a as [|x a IH]; simpl; [reflexivity | rewrite cnt_app, IH; simpl; lia]. Qed.

Lemma cnt_nonneg {A} (f : A -> bool) a : 0 <= cnt f a.
Proof. induction a as [|x a IH]; simpl; [lia | destruct (f x); lia]. Qed.

Lemma cnt_le_length {A} (f : A -> bool) a : cnt f a <= Z.of_nat (length a).
Proof. induction a as [|x a IH]; [simpl; lia|]. cbn [cnt length]. destruct (f x); lia. Qed.

Lemma cnt_map {A B} (g : A -> B) (f : B -> bool) a : cnt f (map g a) = cnt (fun x => f (g x)) a.
Proof. induction a as [|x a IH]; simpl; [reflexivity | now rewrite IH]. Qed.

Lemma cnt_ext {A} (f g : A -> bool) a : (forall x, f x = g x) -> cnt f a = cnt g a.
Proof. intros H. induction a as [|x a IH]; simpl; [reflexivity | now rewrite H, IH]. Qed.

Lemma cnt_perm {A} (f : A -> bool) a b : Permutation a b -> cnt f a = cnt f b.
Proof. induction 1; simpl; lia. Qed.

Lemma cnt_repeat {A} (f : A -> bool) x k : cnt f (repeat x k) = if f x then Z.of_nat k else 0.
Proof. induction k as [|k IH]; [simpl; now destruct (f x)|]. cbn [repeat cnt]. rewrite IH. destruct (f x); lia. Qed.

(* Python's  str * int  on lists *)
Definition rep {A} (l : list A) (k : nat) : list A := concat (repeat l k).

Fixpoint lZ_eqb (a b : list Z) : bool :=
  match a, b with
  | [], [] => true
  | x :: a', y :: b' => Z.eqb x y && lZ_eqb a' b'
  | _, _ => false
  end.
Fixpoint llZ_eqb (a b : list (list Z)) : bool :=
  match a, b with
  | [], [] => true
  | x :: a', y :: b' => lZ_eqb x y && llZ_eqb a' b'
  | _, _ => false
  end.
Lemma lZ_eqb_eq a b : lZ_eqb a b = true -> a = b.
Proof.
  revert b. induction a as [|x a IH]; intros [|y b] H; try discriminate; [reflexivity|].
  cbn [lZ_eqb] in H. apply andb_prop in H. destruct H as [H1 H2].
  apply Z.eqb_eq in H1. subst. f_equal. apply IH. exact H2.
Qed.
Lemma llZ_eqb_eq a b : llZ_eqb a b = true -> a = b.
Proof.
  revert b. induction a as [|x a IH]; intros [|y b] H; try discriminate; [reflexivity|].
  cbn [llZ_eqb] in H. apply andb_prop in H. destruct H as [H1 H2].
  apply lZ_eqb_eq in H1. subst. f_equal. apply IH. exact H2.
Qed.
