(* Core/MiniPy.v — a deep embedding of the small Python fragment in which localCIDER's character / site
   loops are written (for-loops over strings and lists, if-chains, string and list building, raise,
   continue, return), with a total interpreter.  tools/py2coq/g_minipy.py translates the source of a
   function into a term of type [stmt] on every run; Props/Tie/minipy_tie.v proves that running that
   term agrees with the hand-written models for ALL inputs (per-character step equalities by
   exhaustive evaluation, lifted over the loop by the lemmas at the end of this file). *)
From Coq Require Import List String Ascii ZArith QArith Qreduction Bool Lia.
Import ListNotations.
Local Open Scope Z_scope.

Inductive value :=
| VNone
| VBool (b : bool)
| VInt (z : Z)
| VQ (q : Q)        (* a Python float, tracked as the exact rational of its decimal literal / exact arithmetic; always Qred-normal *)
| VStr (s : list ascii)
| VList (l : list value)
| VDict (d : list (value * value))   (* insertion-ordered; the first binding of a key is the one looked up *)
| VOpaque          (* a number whose value the fragment does not track (a float quotient) *)
| VExc             (* a Python exception raised while evaluating (IndexError, ZeroDivisionError, ValueError) *)
| VErr.            (* outside the fragment: ill-typed use; never produced on the tied functions (shown by the ties) *)

Inductive expr :=
| EConst (v : value)
| EVar (x : string)
| EEq (a b : expr) | ENe (a b : expr)
| ELt (a b : expr) | ELe (a b : expr) | EGt (a b : expr) | EGe (a b : expr)
| EIn (a b : expr) | ENotIn (a b : expr)
| ENot (a : expr) | EAnd (a b : expr) | EOr (a b : expr)
| EAdd (a b : expr) | ESub (a b : expr) | EMul (a b : expr) | EDiv (a b : expr)
| ELen (a : expr)
| EIndex (a i : expr)
| ECount (a b : expr)
| EIsSpace (a : expr)
| EUpper (a : expr)
| EIsInt (a : expr)
| EToInt (a : expr)
| EStrip (a : expr)
| ELower (a : expr)
| EIsDict (a : expr)
| EComp (x : string) (body src : expr)        (* [body for x in src] *)
| ESetOf (a : expr)                          (* set(list): modelled as the list without repeats (first occurrences); only
                                                membership and order-insensitive iteration may be applied to it *)
| EIsStr (a : expr)
| EListOf (a : expr)                         (* list(x): the elements of a string / list / dictionary, as a list *)
| EJoin (sep : list ascii) (a : expr)        (* sep.join(list of strings) *)
| EMod (a b : expr)
| EFormat (template : list ascii) (args : list expr)    (* "...%s..." % (a, b, ...) with string arguments *)
| ESlice (a lo hi : expr)       (* a[lo:hi]; a bound may be EConst VNone *)
| ECall (f : string) (args : list expr)   (* a call of another function of the library: interpreted by the table [prim] *)
| EListLit (l : list expr)
| ERange (lo hi : expr)                   (* range(lo, hi) / np.arange(lo, hi), as the list of its integers *)
| ESetDiff (a b : expr)                   (* set(a) - b : the elements of a (in a's order) that are not in b *)
| ESorted (a : expr)                      (* sorted(list of integers) *)
| EEnumFilter (ix x : string) (cond body src : expr).   (* [body for ix, x in enumerate(src) if cond] *)

Inductive stmt :=
| SSkip
| SSeq (a b : stmt)
| SAssign (x : string) (e : expr)
| SAppend (x : string) (e : expr)
| SSetItem (x : string) (k e : expr)      (* x[k] = e  for a dictionary x *)
| SIf (c : expr) (a b : stmt)
| SFor (x : string) (e : expr) (body : stmt)
| SWhile (c : expr) (body : stmt)
| SRaise
| SReturn (e : expr)
| SContinue
| SBreak.

Definition env := list (string * value).

Fixpoint lookup (x : string) (r : env) : value :=
  match r with
  | [] => VErr
  | (y, v) :: r' => if String.eqb x y then v else lookup x r'
  end.

Fixpoint set (x : string) (v : value) (r : env) : env :=
  match r with
  | [] => [(x, v)]
  | (y, w) :: r' => if String.eqb x y then (y, v) :: r' else (y, w) :: set x v r'
  end.

Lemma lookup_set_eq x v r : lookup x (set x v r) = v.
Proof.
  induction r as [|[y w] r IH]; cbn [set lookup]; [now rewrite String.eqb_refl|].
  destruct (String.eqb x y) eqn:E; cbn [lookup]; rewrite E; [reflexivity | exact IH].
Qed.
Lemma lookup_set_neq x y v r : String.eqb x y = false -> lookup x (set y v r) = lookup x r.
Proof.
  intros H. induction r as [|[z w] r IH]; cbn [set lookup]; [now rewrite H|].
  destruct (String.eqb y z) eqn:E; cbn [lookup].
  - apply String.eqb_eq in E. subst z. now rewrite H.
  - destruct (String.eqb x z); [reflexivity | exact IH].
Qed.

(* ---- values ---- *)
Fixpoint ascii_list_eqb (a b : list ascii) : bool :=
  match a, b with
  | [], [] => true
  | x :: a', y :: b' => Ascii.eqb x y && ascii_list_eqb a' b'
  | _, _ => false
  end.

Fixpoint veqb (a b : value) {struct a} : bool :=
  match a, b with
  | VNone, VNone => true
  | VBool x, VBool y => Bool.eqb x y
  | VInt x, VInt y => Z.eqb x y
  | VQ x, VQ y => Qeq_bool x y
  | VInt x, VQ y => Qeq_bool (inject_Z x) y
  | VQ x, VInt y => Qeq_bool x (inject_Z y)
  | VStr x, VStr y => ascii_list_eqb x y
  | VList x, VList y =>
      (fix go (x y : list value) : bool :=
         match x, y with
         | [], [] => true
         | u :: x', w :: y' => veqb u w && go x' y'
         | _, _ => false
         end) x y
  | _, _ => false
  end.

(* l[i] = v with Python's index rules; None = IndexError *)
Definition list_set {A} (l : list A) (i : Z) (v : A) : option (list A) :=
  let n := Z.of_nat (List.length l) in
  let j := if i <? 0 then n + i else i in
  if (j <? 0) || (n <=? j) then None
  else Some (firstn (Z.to_nat j) l ++ v :: skipn (S (Z.to_nat j)) l).

Fixpoint vdedup (seen l : list value) : list value :=
  match l with
  | [] => []
  | v :: l' => if existsb (veqb v) seen then vdedup seen l' else v :: vdedup (v :: seen) l'
  end.

Fixpoint join_strs (sep : list ascii) (l : list value) : option (list ascii) :=
  match l with
  | [] => Some []
  | VStr x :: l' => match l' with
                    | [] => Some x
                    | _ => option_map (fun t => x ++ sep ++ t) (join_strs sep l')
                    end
  | _ => None
  end.

Fixpoint insertZ (x : Z) (l : list Z) : list Z :=
  match l with [] => [x] | y :: l' => if x <=? y then x :: l else y :: insertZ x l' end.
Definition sortZ (l : list Z) : list Z := fold_right insertZ [] l.
Fixpoint ints_of (l : list value) : option (list Z) :=
  match l with
  | [] => Some []
  | VInt z :: l' => option_map (cons z) (ints_of l')
  | _ => None
  end.

Definition lower_py (c : ascii) : ascii :=
  let n := nat_of_ascii c in if ((65 <=? n) && (n <=? 90))%nat then ascii_of_nat (n + 32) else c.

Fixpoint dict_get (k : value) (d : list (value * value)) : option value :=
  match d with
  | [] => None
  | (k', v) :: d' => if veqb k k' then Some v else dict_get k d'
  end.
Fixpoint dict_set (k v : value) (d : list (value * value)) : list (value * value) :=
  match d with
  | [] => [(k, v)]
  | (k', w) :: d' => if veqb k k' then (k', v) :: d' else (k', w) :: dict_set k v d'
  end.

(* "%s" substitution; None = wrong number / kind of arguments *)
Fixpoint format_s (t : list ascii) (args : list value) : option (list ascii) :=
  match t with
  | [] => match args with [] => Some [] | _ => None end
  | c :: t' =>
      if Ascii.eqb c "%" then
        match t' with
        | d :: t'' => if Ascii.eqb d "s" then
                        match args with
                        | VStr a :: args' => option_map (app a) (format_s t'' args')
                        | _ => None
                        end
                      else None
        | [] => None
        end
      else option_map (cons c) (format_s t' args)
  end.

Definition is_bad (v : value) : bool := match v with VExc | VErr => true | _ => false end.
(* strict combination of two sub-results: VErr dominates VExc *)
Definition bad2 (a b : value) : option value :=
  match a, b with
  | VErr, _ | _, VErr => Some VErr
  | VExc, _ | _, VExc => Some VExc
  | _, _ => None
  end.

Definition truthy (v : value) : value :=
  match v with
  | VNone => VBool false
  | VBool b => VBool b
  | VInt z => VBool (negb (Z.eqb z 0))
  | VQ q => VBool (negb (Qeq_bool q 0))
  | VStr s => VBool (match s with [] => false | _ => true end)
  | VList l => VBool (match l with [] => false | _ => true end)
  | VDict d => VBool (match d with [] => false | _ => true end)
  | VOpaque => VOpaque
  | VExc => VExc
  | VErr => VErr
  end.

Fixpoint is_prefix (p s : list ascii) : bool :=
  match p, s with
  | [], _ => true
  | c :: p', d :: s' => Ascii.eqb c d && is_prefix p' s'
  | _ :: _, [] => false
  end.
(* Python's  p in s  for strings: substring test *)
Fixpoint is_substr (p s : list ascii) : bool :=
  is_prefix p s || match s with [] => false | _ :: s' => is_substr p s' end.

Definition is_ws_py (c : ascii) : bool :=
  let n := nat_of_ascii c in ((9 <=? n) && (n <=? 13) || (28 <=? n) && (n <=? 32))%nat.
Definition upper_py (c : ascii) : ascii :=
  let n := nat_of_ascii c in if ((97 <=? n) && (n <=? 122))%nat then ascii_of_nat (n - 32) else c.
Definition is_digit_py (c : ascii) : bool := let n := nat_of_ascii c in ((48 <=? n) && (n <=? 57))%nat.

Fixpoint count_substr1 (c : ascii) (s : list ascii) : Z :=
  match s with [] => 0 | d :: s' => (if Ascii.eqb c d then 1 else 0) + count_substr1 c s' end.

(* int("...") of an optionally signed decimal ASCII string; None = ValueError *)
Fixpoint digits_val (acc : Z) (s : list ascii) : option Z :=
  match s with
  | [] => Some acc
  | c :: s' => if is_digit_py c then digits_val (10 * acc + Z.of_nat (nat_of_ascii c - 48)) s' else None
  end.
Definition int_of_str (s : list ascii) : option Z :=
  match s with
  | [] => None
  | c :: s' =>
      if Ascii.eqb c "-" then match s' with [] => None | _ => option_map Z.opp (digits_val 0 s') end
      else digits_val 0 s
  end.

Fixpoint drop_ws (cs : list ascii) : list ascii :=
  match cs with [] => [] | c :: r => if is_ws_py c then drop_ws r else cs end.

(* Python slice bounds on a sequence of length n: None = open end; negative = from the end; clipped *)
Definition clip (n : nat) (i : Z) : nat :=
  let m := Z.of_nat n in
  let j := if i <? 0 then m + i else i in
  Z.to_nat (Z.max 0 (Z.min m j)).
Definition slice_bounds (n : nat) (lo hi : value) : option (nat * nat) :=
  match (match lo with VNone => Some 0%nat | VInt i => Some (clip n i) | _ => None end),
        (match hi with VNone => Some n | VInt i => Some (clip n i) | _ => None end) with
  | Some i, Some j => Some (i, j)
  | _, _ => None
  end.

Definition index_val {A} (l : list A) (i : Z) : option A :=
  let n := Z.of_nat (List.length l) in
  let j := if i <? 0 then n + i else i in
  if (j <? 0) || (n <=? j) then None else nth_error l (Z.to_nat j).

Definition as_Q (v : value) : option Q :=
  match v with VInt z => Some (inject_Z z) | VQ q => Some q | VBool b => Some (if b then 1 else 0)%Q | _ => None end.

Definition cmp_int (f : Z -> Z -> bool) (g : Q -> Q -> bool) (a b : value) : value :=
  match bad2 a b with
  | Some e => e
  | None => match a, b with
            | VInt x, VInt y => VBool (f x y)
            | VOpaque, _ | _, VOpaque => VOpaque
            | _, _ => match as_Q a, as_Q b with
                      | Some x, Some y => VBool (g x y)
                      | _, _ => VErr
                      end
            end
  end.

Definition Qltb (x y : Q) : bool := negb (Qle_bool y x).

Definition v_in (a b : value) : value :=
  match bad2 a b with
  | Some e => e
  | None => match a, b with
            | VStr p, VStr s => VBool (is_substr p s)
            | x, VList l => VBool (existsb (veqb x) l)
            | x, VDict d => VBool (match dict_get x d with Some _ => true | None => false end)
            | _, _ => VErr
            end
  end.

Definition v_not (a : value) : value :=
  match truthy a with VBool b => VBool (negb b) | other => other end.

(* one iteration's outcome threaded into the rest of a loop *)
Definition elements (v : value) : option (list value) :=
  match v with
  | VStr s => Some (map (fun c => VStr [c]) s)
  | VList l => Some l
  | VDict d => Some (map fst d)
  | _ => None
  end.

Section Interp.
(* calls of other library functions are interpreted by [prim] (their own ties justify the table);
   every while-loop may iterate at most [wfuel] times (running out is OErr, excluded by the ties) *)
Variable prim : string -> list value -> value.
Variable wfuel : nat.

Fixpoint eval (e : expr) (r : env) {struct e} : value :=
  match e with
  | EConst v => v
  | EVar x => lookup x r
  | EEq a b => let x := eval a r in let y := eval b r in
               match bad2 x y with Some e => e | None => VBool (veqb x y) end
  | ENe a b => let x := eval a r in let y := eval b r in
               match bad2 x y with Some e => e | None => VBool (negb (veqb x y)) end
  | ELt a b => cmp_int Z.ltb Qltb (eval a r) (eval b r)
  | ELe a b => cmp_int Z.leb Qle_bool (eval a r) (eval b r)
  | EGt a b => cmp_int Z.gtb (fun x y => Qltb y x) (eval a r) (eval b r)
  | EGe a b => cmp_int Z.geb (fun x y => Qle_bool y x) (eval a r) (eval b r)
  | EIn a b => v_in (eval a r) (eval b r)
  | ENotIn a b => v_not (v_in (eval a r) (eval b r))
  | ENot a => v_not (eval a r)
  | EAnd a b => match truthy (eval a r) with
                | VBool false => VBool false
                | VBool true => truthy (eval b r)
                | other => other
                end
  | EOr a b => match truthy (eval a r) with
               | VBool true => VBool true
               | VBool false => truthy (eval b r)
               | other => other
               end
  | EAdd a b => let x := eval a r in let y := eval b r in
                match bad2 x y with
                | Some e => e
                | None => match x, y with
                          | VInt p, VInt q => VInt (p + q)
                          | VStr p, VStr q => VStr (p ++ q)
                          | VList p, VList q => VList (p ++ q)
                          | _, _ => match as_Q x, as_Q y with
                                    | Some p, Some q => VQ (Qred (p + q))
                                    | _, _ => VErr
                                    end
                          end
                end
  | ESub a b => let x := eval a r in let y := eval b r in
                match bad2 x y with
                | Some e => e
                | None => match x, y with
                          | VInt p, VInt q => VInt (p - q)
                          | _, _ => match as_Q x, as_Q y with
                                    | Some p, Some q => VQ (Qred (p - q))
                                    | _, _ => VErr
                                    end
                          end
                end
  | EMul a b => let x := eval a r in let y := eval b r in
                match bad2 x y with
                | Some e => e
                | None => match x, y with
                          | VInt p, VInt q => VInt (p * q)
                          | VList l, VInt q => VList (List.concat (repeat l (Z.to_nat q)))      (* [v] * n *)
                          | _, _ => match as_Q x, as_Q y with
                                    | Some p, Some q => VQ (Qred (p * q))
                                    | _, _ => VErr
                                    end
                          end
                end
  | EDiv a b => let x := eval a r in let y := eval b r in
                match bad2 x y with
                | Some e => e
                | None => match x, y with
                          | VInt _, VInt q => if Z.eqb q 0 then VExc else VOpaque
                          | _, _ => match as_Q x, as_Q y with
                                    | Some p, Some q => if Qeq_bool q 0 then VExc else VQ (Qred (p / q))
                                    | _, _ => VErr
                                    end
                          end
                end
  | ELen a => match eval a r with
              | VStr s => VInt (Z.of_nat (List.length s))
              | VList l => VInt (Z.of_nat (List.length l))
              | VDict d => VInt (Z.of_nat (List.length d))
              | VExc => VExc
              | _ => VErr
              end
  | EIndex a i => let x := eval a r in let y := eval i r in
                  match bad2 x y with
                  | Some e => e
                  | None => match x, y with
                            | VStr s, VInt k => match index_val s k with Some c => VStr [c] | None => VExc end
                            | VList l, VInt k => match index_val l k with Some v => v | None => VExc end
                            | VDict d, k => match dict_get k d with Some v => v | None => VExc end
                            | _, _ => VErr
                            end
                  end
  | ECount a b => let x := eval a r in let y := eval b r in
                  match bad2 x y with
                  | Some e => e
                  | None => match x, y with
                            | VStr s, VStr [c] => VInt (count_substr1 c s)
                            | _, _ => VErr
                            end
                  end
  | EIsSpace a => match eval a r with
                  | VStr s => VBool (match s with [] => false | _ => forallb is_ws_py s end)
                  | VExc => VExc
                  | _ => VErr
                  end
  | EUpper a => match eval a r with
                | VStr s => VStr (map upper_py s)
                | VErr => VErr
                | _ => VExc               (* AttributeError: 'int' object has no attribute 'upper' *)
                end
  | EIsInt a => match eval a r with
                | VInt _ => VBool true
                | VBool _ => VBool true        (* isinstance(True, int) *)
                | VExc => VExc
                | VErr => VErr
                | _ => VBool false
                end
  | EToInt a => match eval a r with
                | VInt z => VInt z
                | VBool b => VInt (if b then 1 else 0)
                | VStr s => match int_of_str s with Some z => VInt z | None => VExc end
                | VExc => VExc
                | _ => VErr
                end
  | EIsDict a => match eval a r with
                 | VDict _ => VBool true
                 | VExc => VExc
                 | VErr => VErr
                 | _ => VBool false
                 end
  | EComp x body src =>
      match eval src r with
      | VExc => VExc
      | v => match elements v with
             | None => VErr
             | Some xs =>
                 (fix go (xs : list value) : value :=
                    match xs with
                    | [] => VList []
                    | v :: xs' => let y := eval body (set x v r) in
                                  match go xs' with
                                  | VList t => if is_bad y then y else VList (y :: t)
                                  | other => if is_bad y then (match bad2 y other with Some e => e | None => other end) else other
                                  end
                    end) xs
             end
      end
  | ESetOf a => match eval a r with
                | VList l => VList (vdedup [] l)
                | VExc => VExc
                | _ => VErr
                end
  | EListOf a => match eval a r with
                 | VExc => VExc
                 | v => match elements v with Some xs => VList xs | None => VErr end
                 end
  | EIsStr a => match eval a r with
                | VStr _ => VBool true
                | VExc => VExc
                | VErr => VErr
                | _ => VBool false
                end
  | EJoin sep a => match eval a r with
                   | VList l => match join_strs sep l with Some t => VStr t | None => VErr end
                   | VStr s => match join_strs sep (map (fun c => VStr [c]) s) with Some t => VStr t | None => VErr end   (* sep.join(a string): its characters *)
                   | VExc => VExc
                   | _ => VErr
                   end
  | ELower a => match eval a r with
                | VStr s => VStr (map lower_py s)
                | VExc => VExc
                | _ => VErr
                end
  | EMod a b => let x := eval a r in let y := eval b r in
                match bad2 x y with
                | Some e => e
                | None => match x, y with
                          | VInt p, VInt q => if Z.eqb q 0 then VExc else VInt (p mod q)
                          | _, _ => VErr
                          end
                end
  | EFormat t args =>
      let vs := (fix go (l : list expr) : list value := match l with [] => [] | a :: l' => eval a r :: go l' end) args in
      if existsb (fun v => match v with VErr => true | _ => false end) vs then VErr
      else if existsb (fun v => match v with VExc => true | _ => false end) vs then VExc
      else match format_s t vs with Some s => VStr s | None => VErr end
  | EStrip a => match eval a r with
                | VStr s => VStr (rev (drop_ws (rev (drop_ws s))))
                | VExc => VExc
                | _ => VErr
                end
  | ESlice a lo hi =>
      match eval a r, eval lo r, eval hi r with
      | VErr, _, _ | _, VErr, _ | _, _, VErr => VErr
      | VExc, _, _ | _, VExc, _ | _, _, VExc => VExc
      | VStr s, l, h => match slice_bounds (List.length s) l h with
                        | Some (i, j) => VStr (firstn (j - i) (skipn i s))
                        | None => VErr
                        end
      | VList s, l, h => match slice_bounds (List.length s) l h with
                         | Some (i, j) => VList (firstn (j - i) (skipn i s))
                         | None => VErr
                         end
      | _, _, _ => VErr
      end
  | ECall f args =>
      let vs := (fix go (l : list expr) : list value := match l with [] => [] | a :: l' => eval a r :: go l' end) args in
      if existsb (fun v => match v with VErr => true | _ => false end) vs then VErr
      else if existsb (fun v => match v with VExc => true | _ => false end) vs then VExc
      else prim f vs
  | EListLit l =>
      (fix go (l : list expr) : value :=
         match l with
         | [] => VList []
         | a :: l' => let x := eval a r in
                      match go l' with
                      | VList t => if is_bad x then x else VList (x :: t)
                      | other => if is_bad x then (match bad2 x other with Some e => e | None => other end) else other
                      end
         end) l
  | ERange lo hi => let x := eval lo r in let y := eval hi r in
                    match bad2 x y with
                    | Some e => e
                    | None => match x, y with
                              | VInt a, VInt b => VList (map (fun k => VInt (a + Z.of_nat k)) (seq 0 (Z.to_nat (b - a))))
                              | _, _ => VErr
                              end
                    end
  | ESetDiff a b => let x := eval a r in let y := eval b r in
                    match bad2 x y with
                    | Some e => e
                    | None => match x, y with
                              | VList p, VList q => VList (filter (fun v => negb (existsb (veqb v) q)) p)
                              | _, _ => VErr
                              end
                    end
  | ESorted a => match eval a r with
                 | VList l => match ints_of l with Some zs => VList (map VInt (sortZ zs)) | None => VErr end
                 | VExc => VExc
                 | _ => VErr
                 end
  | EEnumFilter ix x cond body src =>
      match eval src r with
      | VExc => VExc
      | v => match elements v with
             | None => VErr
             | Some xs =>
                 (fix go (k : Z) (xs : list value) : value :=
                    match xs with
                    | [] => VList []
                    | v :: xs' =>
                        let r' := set x v (set ix (VInt k) r) in
                        match truthy (eval cond r') with
                        | VBool true => let y := eval body r' in
                                        if is_bad y then y
                                        else match go (k + 1) xs' with VList t => VList (y :: t) | other => other end
                        | VBool false => go (k + 1) xs'
                        | VExc => VExc
                        | _ => VErr
                        end
                    end) 0 xs
             end
      end
  end.

Inductive outcome :=
| ONorm (r : env)
| OCont (r : env)
| OBreak (r : env)
| ORet (v : value)
| ORaise
| OErr.

Fixpoint exec (s : stmt) (r : env) {struct s} : outcome :=
  match s with
  | SSkip => ONorm r
  | SSeq a b => match exec a r with ONorm r' => exec b r' | other => other end
  | SAssign x e => match eval e r with
                   | VExc => ORaise
                   | VErr => OErr
                   | v => ONorm (set x v r)
                   end
  | SAppend x e => match lookup x r, eval e r with
                   | _, VErr => OErr
                   | _, VExc => ORaise
                   | VList l, v => ONorm (set x (VList (l ++ [v])) r)
                   | _, _ => OErr
                   end
  | SSetItem x k e => match lookup x r, eval k r, eval e r with
                      | _, VErr, _ | _, _, VErr => OErr
                      | _, VExc, _ | _, _, VExc => ORaise
                      | VDict d, kv, v => ONorm (set x (VDict (dict_set kv v d)) r)
                      | VList l, VInt i, v => match list_set l i v with Some l' => ONorm (set x (VList l') r) | None => ORaise end
                      | _, _, _ => OErr
                      end
  | SIf c a b => match truthy (eval c r) with
                 | VBool true => exec a r
                 | VBool false => exec b r
                 | VExc => ORaise
                 | VOpaque => match a, b with SSkip, SSkip => ONorm r | _, _ => OErr end
                 | _ => OErr
                 end
  | SFor x e body =>
      match eval e r with
      | VExc => ORaise
      | v => match elements v with
             | None => OErr
             | Some xs =>
                 (fix loop (xs : list value) (r : env) : outcome :=
                    match xs with
                    | [] => ONorm r
                    | v :: xs' => match exec body (set x v r) with
                                  | ONorm r' | OCont r' => loop xs' r'
                                  | OBreak r' => ONorm r'
                                  | other => other
                                  end
                    end) xs r
             end
      end
  | SWhile c body =>
      (fix loop (k : nat) (r : env) : outcome :=
         match k with
         | O => OErr
         | S k' => match truthy (eval c r) with
                   | VBool false => ONorm r
                   | VBool true => match exec body r with
                                   | ONorm r' | OCont r' => loop k' r'
                                   | OBreak r' => ONorm r'
                                   | other => other
                                   end
                   | VExc => ORaise
                   | _ => OErr
                   end
         end) wfuel r
  | SRaise => ORaise
  | SReturn e => match eval e r with VExc => ORaise | VErr => OErr | v => ORet v end
  | SContinue => OCont r
  | SBreak => OBreak r
  end.

(* the loop of SFor, as a function of the element list *)
Fixpoint run_loop (x : string) (body : stmt) (xs : list value) (r : env) : outcome :=
  match xs with
  | [] => ONorm r
  | v :: xs' => match exec body (set x v r) with
                | ONorm r' | OCont r' => run_loop x body xs' r'
                | OBreak r' => ONorm r'
                | other => other
                end
  end.

Lemma exec_for x e body r : exec (SFor x e body) r =
  match eval e r with
  | VExc => ORaise
  | v => match elements v with None => OErr | Some xs => run_loop x body xs r end
  end.
Proof.
  cbn [exec]. destruct (eval e r); try reflexivity;
  match goal with |- match elements ?v with _ => _ end = _ => destruct (elements v) as [xs|]; [|reflexivity] end;
  revert r; induction xs as [|v xs IH]; intros r; cbn [run_loop]; try reflexivity;
  destruct (exec body (set x v r)); try reflexivity; apply IH.
Qed.

(* ---- small-step evaluation rules (cbn on an expression with abstract operands expands every error branch; these
   lemmas rewrite with the operands' values instead) ---- *)
Lemma eval_var x r : eval (EVar x) r = lookup x r. Proof. reflexivity. Qed.
Lemma eval_const v r : eval (EConst v) r = v. Proof. reflexivity. Qed.
Lemma eval_slice_list a lo hi r l i j : eval a r = VList l -> eval lo r = VInt i -> eval hi r = VInt j ->
  eval (ESlice a lo hi) r = match slice_bounds (List.length l) (VInt i) (VInt j) with
                            | Some (i', j') => VList (firstn (j' - i') (skipn i' l))
                            | None => VErr
                            end.
Proof. intros Ha Hl Hh. cbn [eval]. rewrite Ha, Hl, Hh. reflexivity. Qed.
Lemma eval_index_list a i r l k v : eval a r = VList l -> eval i r = VInt k -> index_val l k = Some v -> eval (EIndex a i) r = v.
Proof. intros Ha Hi Hv. cbn [eval]. rewrite Ha, Hi. cbn [bad2]. now rewrite Hv. Qed.
Lemma eval_add_int a b r x y : eval a r = VInt x -> eval b r = VInt y -> eval (EAdd a b) r = VInt (x + y).
Proof. intros Ha Hb. cbn [eval]. rewrite Ha, Hb. reflexivity. Qed.
Lemma eval_add_Q a b r p q : eval a r = VQ p -> eval b r = VQ q -> eval (EAdd a b) r = VQ (Qred (p + q)).
Proof. intros Ha Hb. cbn [eval]. rewrite Ha, Hb. reflexivity. Qed.
Lemma eval_sub_Q a b r p q : eval a r = VQ p -> eval b r = VQ q -> eval (ESub a b) r = VQ (Qred (p - q)).
Proof. intros Ha Hb. cbn [eval]. rewrite Ha, Hb. reflexivity. Qed.

Lemma eval_lt_Q a b r p q : eval a r = VQ p -> eval b r = VQ q -> eval (ELt a b) r = VBool (Qltb p q).
Proof. intros Ha Hb. cbn [eval]. rewrite Ha, Hb. reflexivity. Qed.
Lemma eval_toint_int a r z : eval a r = VInt z -> eval (EToInt a) r = VInt z.
Proof. intros H. cbn [eval]. now rewrite H. Qed.
Lemma eval_sub_int a b r x y : eval a r = VInt x -> eval b r = VInt y -> eval (ESub a b) r = VInt (x - y).
Proof. intros Ha Hb. cbn [eval]. rewrite Ha, Hb. reflexivity. Qed.
Lemma eval_eq_int a b r x y : eval a r = VInt x -> eval b r = VInt y -> eval (EEq a b) r = VBool (x =? y).
Proof. intros Ha Hb. cbn [eval]. rewrite Ha, Hb. reflexivity. Qed.
Lemma eval_slice_str a lo hi r s i j : eval a r = VStr s -> eval lo r = VInt i -> eval hi r = VInt j ->
  eval (ESlice a lo hi) r = match slice_bounds (List.length s) (VInt i) (VInt j) with
                            | Some (i', j') => VStr (firstn (j' - i') (skipn i' s))
                            | None => VErr
                            end.
Proof. intros Ha Hl Hh. cbn [eval]. rewrite Ha, Hl, Hh. reflexivity. Qed.
Lemma eval_mul_Q a b r p q : eval a r = VQ p -> eval b r = VQ q -> eval (EMul a b) r = VQ (Qred (p * q)).
Proof. intros Ha Hb. cbn [eval]. rewrite Ha, Hb. reflexivity. Qed.
Lemma eval_add_Q_int a b r p z : eval a r = VQ p -> eval b r = VInt z -> eval (EAdd a b) r = VQ (Qred (p + inject_Z z)).
Proof. intros Ha Hb. cbn [eval]. rewrite Ha, Hb. reflexivity. Qed.
Lemma eval_mul_rep a b r l n : eval a r = VList l -> eval b r = VInt n -> eval (EMul a b) r = VList (List.concat (repeat l (Z.to_nat n))).
Proof. intros Ha Hb. cbn [eval]. rewrite Ha, Hb. reflexivity. Qed.
Lemma eval_mul_int a b r x y : eval a r = VInt x -> eval b r = VInt y -> eval (EMul a b) r = VInt (x * y).
Proof. intros Ha Hb. cbn [eval]. rewrite Ha, Hb. reflexivity. Qed.
Lemma eval_add_list a b r x y : eval a r = VList x -> eval b r = VList y -> eval (EAdd a b) r = VList (x ++ y).
Proof. intros Ha Hb. cbn [eval]. rewrite Ha, Hb. reflexivity. Qed.
Lemma eval_listlit1 a r v : eval a r = v -> is_bad v = false -> eval (EListLit [a]) r = VList [v].
Proof. intros <- H. cbn [eval]. destruct (eval a r); try discriminate H; reflexivity. Qed.
Lemma eval_range a b r x y : eval a r = VInt x -> eval b r = VInt y ->
  eval (ERange a b) r = VList (map (fun k => VInt (x + Z.of_nat k)) (seq 0 (Z.to_nat (y - x)))).
Proof. intros Ha Hb. cbn [eval]. rewrite Ha, Hb. reflexivity. Qed.
Lemma eval_add_Q_int_l a b r z q : eval a r = VInt z -> eval b r = VQ q -> eval (EAdd a b) r = VQ (Qred (inject_Z z + q)).
Proof. intros Ha Hb. cbn [eval]. rewrite Ha, Hb. reflexivity. Qed.
Lemma eval_mul_int_Q a b r z q : eval a r = VInt z -> eval b r = VQ q -> eval (EMul a b) r = VQ (Qred (inject_Z z * q)).
Proof. intros Ha Hb. cbn [eval]. rewrite Ha, Hb. reflexivity. Qed.
Lemma eval_index_dict a i r d k v : eval a r = VDict d -> eval i r = k -> is_bad k = false -> dict_get k d = Some v -> eval (EIndex a i) r = v.
Proof. intros Ha <- Hk Hv. cbn [eval]. rewrite Ha. destruct (eval i r); try discriminate Hk; cbn [bad2]; now rewrite Hv. Qed.
Lemma eval_listlit_all r es : forall vs, Forall2 (fun e v => eval e r = v /\ is_bad v = false) es vs -> eval (EListLit es) r = VList vs.
Proof.
  induction es as [|e es IH]; intros vs H; inversion H as [|? v ? vs' [He Hv] Hr]; subst; [reflexivity|].
  change (eval (EListLit (e :: es)) r) with
    (let x := eval e r in match eval (EListLit es) r with
       | VList t => if is_bad x then x else VList (x :: t)
       | other => if is_bad x then (match bad2 x other with Some e0 => e0 | None => other end) else other end).
  cbv zeta. rewrite (IH vs' Hr), Hv. reflexivity.
Qed.
Lemma eval_call0 f r : eval (ECall f []) r = prim f []. Proof. reflexivity. Qed.
Lemma eval_call1 f a r v : eval a r = v -> is_bad v = false -> eval (ECall f [a]) r = prim f [v].
Proof. intros <- H. cbn [eval]. destruct (eval a r); try discriminate H; reflexivity. Qed.
Lemma eval_call2 f a b r v w : eval a r = v -> eval b r = w -> is_bad v = false -> is_bad w = false -> eval (ECall f [a; b]) r = prim f [v; w].
Proof. intros <- <- H1 H2. cbn [eval]. destruct (eval a r); try discriminate H1; destruct (eval b r); try discriminate H2; reflexivity. Qed.
Lemma eval_call3 f a b c r v w u : eval a r = v -> eval b r = w -> eval c r = u -> is_bad v = false -> is_bad w = false -> is_bad u = false ->
  eval (ECall f [a; b; c]) r = prim f [v; w; u].
Proof.
  intros <- <- <- H1 H2 H3. cbn [eval]. destruct (eval a r); try discriminate H1; destruct (eval b r); try discriminate H2;
  destruct (eval c r); try discriminate H3; reflexivity.
Qed.
Lemma eval_listlit2 a b r v w : eval a r = v -> eval b r = w -> is_bad v = false -> is_bad w = false -> eval (EListLit [a; b]) r = VList [v; w].
Proof. intros <- <- H1 H2. cbn [eval]. destruct (eval a r); try discriminate H1; destruct (eval b r); try discriminate H2; reflexivity. Qed.

(* ---- program shape: loop-free statements, one top-level for-loop, the rest ---- *)
Fixpoint exec_list (l : list stmt) (r : env) : outcome :=
  match l with
  | [] => ONorm r
  | s :: l' => match exec s r with ONorm r' => exec_list l' r' | other => other end
  end.

(* the spine  s1; (s2; (...; (for x in e: body; rest)))  *)
Fixpoint split_at_for (s : stmt) : option (list stmt * (string * expr * stmt) * stmt) :=
  match s with
  | SFor x e body => Some ([], (x, e, body), SSkip)
  | SSeq (SFor x e body) rest => Some ([], (x, e, body), rest)
  | SSeq a b => match split_at_for b with
                | Some (pre, l, rest) => Some (a :: pre, l, rest)
                | None => None
                end
  | _ => None
  end.

Lemma exec_seq a b r : exec (SSeq a b) r = match exec a r with ONorm r' => exec b r' | other => other end.
Proof. reflexivity. Qed.

Lemma exec_if c a b r : exec (SIf c a b) r =
  match truthy (eval c r) with
  | VBool true => exec a r
  | VBool false => exec b r
  | VExc => ORaise
  | VOpaque => match a, b with SSkip, SSkip => ONorm r | _, _ => OErr end
  | _ => OErr
  end.
Proof. reflexivity. Qed.

Lemma exec_split s : forall pre x e body rest r, split_at_for s = Some (pre, (x, e, body), rest) ->
  exec s r = match exec_list pre r with
             | ONorm r1 => match exec (SFor x e body) r1 with ONorm r2 => exec rest r2 | other => other end
             | other => other
             end.
Proof.
  induction s as [| a IHa b IHb | y ey | y ey | y ky ey | c a IHa b IHb | y ey bd IHbd | c bd IHbd | | ey | |];
    intros pre x e body rest r H; cbn [split_at_for] in H; try discriminate H.
  - assert (Hgen : forall pre' l' rest', split_at_for b = Some (pre', l', rest') -> pre = a :: pre' -> (x, e, body) = l' -> rest = rest' ->
                   exec (SSeq a b) r = match exec_list pre r with
                     | ONorm r1 => match exec (SFor x e body) r1 with ONorm r2 => exec rest r2 | other => other end
                     | other => other end).
    { intros pre' l' rest' E -> <- ->. rewrite exec_seq. cbn [exec_list]. destruct (exec a r); try reflexivity.
      apply IHb. exact E. }
    destruct a; cbn [split_at_for] in H.
    { destruct (split_at_for b) as [[[pre' l'] rest']|] eqn:E; [|discriminate H].
      injection H as Hp Hl Hr. subst pre l' rest. eapply Hgen; reflexivity. }
    all: try (destruct (split_at_for b) as [[[pre' l'] rest']|] eqn:E; [|discriminate H];
           injection H as Hp Hl Hr; subst pre l' rest; eapply Hgen; reflexivity).
    injection H as <- <- <- <- <-. rewrite exec_seq. cbn [exec_list]. reflexivity.
  - injection H as <- <- <- <- <-. cbn [exec_list]. destruct (exec (SFor y ey bd) r); reflexivity.
Qed.

(* Loop invariant rule: a relation between environments and abstract states that every iteration preserves
   (or leaves through raise), lifted to the whole loop. *)
Section LoopRule.
  Context {S : Type}.
  Variable x : string.
  Variable body : stmt.
  Variable Rel : env -> S -> Prop.
  Variable step : S -> value -> option S.          (* None = the iteration raises *)
  Variable Pv : value -> Prop.                     (* what the elements look like (e.g. one-character strings) *)
  Hypothesis body_step : forall r st v, Pv v -> Rel r st ->
    match step st v with
    | Some st' => exists r', (exec body (set x v r) = ONorm r' \/ exec body (set x v r) = OCont r') /\ Rel r' st'
    | None => exec body (set x v r) = ORaise
    end.

  Fixpoint fold_step (st : S) (xs : list value) : option S :=
    match xs with
    | [] => Some st
    | v :: xs' => match step st v with Some st' => fold_step st' xs' | None => None end
    end.

  Lemma run_loop_rule xs : Forall Pv xs -> forall r st, Rel r st ->
    match fold_step st xs with
    | Some st' => exists r', run_loop x body xs r = ONorm r' /\ Rel r' st'
    | None => run_loop x body xs r = ORaise
    end.
  Proof.
    induction xs as [|v xs IH]; intros HP r st HR; cbn [fold_step run_loop].
    - exists r. split; [reflexivity | exact HR].
    - inversion HP as [|? ? Hv Hxs]; subst.
      pose proof (body_step r st v Hv HR) as Hb. destruct (step st v) as [st'|].
      + destruct Hb as [r' [[E|E] HR']]; rewrite E; apply IH; assumption.
      + rewrite Hb. reflexivity.
  Qed.
End LoopRule.

(* the list a comprehension builds, as a function of the element list *)
Fixpoint comp_list (x : string) (body : expr) (xs : list value) (r : env) : value :=
  match xs with
  | [] => VList []
  | v :: xs' => let y := eval body (set x v r) in
                match comp_list x body xs' r with
                | VList t => if is_bad y then y else VList (y :: t)
                | other => if is_bad y then (match bad2 y other with Some e => e | None => other end) else other
                end
  end.

Lemma eval_comp x body src r : eval (EComp x body src) r =
  match eval src r with
  | VExc => VExc
  | v => match elements v with None => VErr | Some xs => comp_list x body xs r end
  end.
Proof.
  cbn [eval]. destruct (eval src r); try reflexivity;
  match goal with |- match elements ?v with _ => _ end = _ => destruct (elements v) as [xs|]; [|reflexivity] end;
  induction xs as [|v xs IH]; cbn [comp_list]; try reflexivity; rewrite IH; reflexivity.
Qed.

(* the list [body for ix, x in enumerate(xs) if cond] builds, as a function of the element list and the first index *)
Fixpoint enum_list (ix x : string) (cond body : expr) (k : Z) (xs : list value) (r : env) : value :=
  match xs with
  | [] => VList []
  | v :: xs' =>
      let r' := set x v (set ix (VInt k) r) in
      match truthy (eval cond r') with
      | VBool true => let y := eval body r' in
                      if is_bad y then y
                      else match enum_list ix x cond body (k + 1) xs' r with VList t => VList (y :: t) | other => other end
      | VBool false => enum_list ix x cond body (k + 1) xs' r
      | VExc => VExc
      | _ => VErr
      end
  end.

Lemma eval_enumfilter ix x cond body src r : eval (EEnumFilter ix x cond body src) r =
  match eval src r with
  | VExc => VExc
  | v => match elements v with None => VErr | Some xs => enum_list ix x cond body 0 xs r end
  end.
Proof.
  cbn [eval]. destruct (eval src r); try reflexivity;
  match goal with |- match elements ?v with _ => _ end = _ => destruct (elements v) as [xs|]; [|reflexivity] end;
  generalize 0; induction xs as [|v xs IH]; intros k; cbn [enum_list]; try reflexivity; rewrite IH; reflexivity.
Qed.

(* a right-nested sequence is the list of its statements *)
Fixpoint spine (s : stmt) : list stmt :=
  match s with SSeq a b => a :: spine b | _ => [s] end.

Lemma exec_spine s : forall r, exec s r = exec_list (spine s) r.
Proof.
  induction s as [| a IHa b IHb | | | | | | | | | |]; intros r; cbn [spine exec_list];
    try (destruct (exec _ r); reflexivity).
  rewrite exec_seq. destruct (exec a r); try reflexivity. apply IHb.
Qed.

(* ---- frame-style rules: one statement at a time over an ABSTRACT environment (used where the environment has many
   variables: the facts needed are lookups, and everything not assigned keeps its value) ---- *)
Lemma exec_assign_ok x e r v : eval e r = v -> is_bad v = false -> exec (SAssign x e) r = ONorm (set x v r).
Proof. intros <- H. cbn [exec]. destruct (eval e r); try discriminate H; reflexivity. Qed.

Lemma exec_setitem_list x k e r l i v l' : lookup x r = VList l -> eval k r = VInt i -> eval e r = v -> is_bad v = false ->
  list_set l i v = Some l' -> exec (SSetItem x k e) r = ONorm (set x (VList l') r).
Proof. intros Hx Hk <- Hv Hl. cbn [exec]. rewrite Hx, Hk. destruct (eval e r); try discriminate Hv; rewrite Hl; reflexivity. Qed.

Lemma exec_append_ok x e r l v : lookup x r = VList l -> eval e r = v -> is_bad v = false -> exec (SAppend x e) r = ONorm (set x (VList (l ++ [v])) r).
Proof. intros Hx <- H. cbn [exec]. rewrite Hx. destruct (eval e r); try discriminate H; reflexivity. Qed.

Lemma exec_setitem_dict x k e r d kv v : lookup x r = VDict d -> eval k r = kv -> eval e r = v -> is_bad kv = false -> is_bad v = false ->
  exec (SSetItem x k e) r = ONorm (set x (VDict (dict_set kv v d)) r).
Proof. intros Hx <- <- Hk Hv. cbn [exec]. rewrite Hx. destruct (eval k r); try discriminate Hk; destruct (eval e r); try discriminate Hv; reflexivity. Qed.

Lemma exec_if_true c a b r : truthy (eval c r) = VBool true -> exec (SIf c a b) r = exec a r.
Proof. intros H. rewrite exec_if, H. reflexivity. Qed.
Lemma exec_if_false c a b r : truthy (eval c r) = VBool false -> exec (SIf c a b) r = exec b r.
Proof. intros H. rewrite exec_if, H. reflexivity. Qed.

Lemma exec_return_ok e r v : eval e r = v -> is_bad v = false -> exec (SReturn e) r = ORet v.
Proof. intros <- H. cbn [exec]. destruct (eval e r); try discriminate H; reflexivity. Qed.

Lemma exec_list_cons st l r : exec_list (st :: l) r = match exec st r with ONorm r' => exec_list l r' | other => other end.
Proof. reflexivity. Qed.
Lemma exec_list_app l1 : forall l2 r, exec_list (l1 ++ l2) r = match exec_list l1 r with ONorm r' => exec_list l2 r' | other => other end.
Proof. induction l1 as [|x l1 IH]; intros l2 r; [reflexivity|]. cbn [app exec_list]. destruct (exec x r); try reflexivity. apply IH. Qed.

(* the loop of SWhile, as a function of the remaining fuel *)
Fixpoint run_while (c : expr) (body : stmt) (k : nat) (r : env) : outcome :=
  match k with
  | O => OErr
  | S k' => match truthy (eval c r) with
            | VBool false => ONorm r
            | VBool true => match exec body r with
                            | ONorm r' | OCont r' => run_while c body k' r'
                            | OBreak r' => ONorm r'
                            | other => other
                            end
            | VExc => ORaise
            | _ => OErr
            end
  end.

Lemma exec_while c body r : exec (SWhile c body) r = run_while c body wfuel r.
Proof.
  cbn [exec]. generalize wfuel. intros k. revert r. induction k as [|k IH]; intros r; cbn [run_while]; [reflexivity|].
  destruct (truthy (eval c r)); try reflexivity. destruct b; [|reflexivity].
  destruct (exec body r); try reflexivity; apply IH.
Qed.
End Interp.

Arguments exec_for {prim wfuel}.
Arguments exec_seq {prim wfuel}.
Arguments exec_if {prim wfuel}.
Arguments eval_var {prim}.
Arguments eval_call0 {prim}.
Arguments eval_listlit_all {prim}.
Arguments eval_index_dict {prim}.
Arguments eval_mul_int_Q {prim}.
Arguments eval_add_Q_int_l {prim}.
Arguments eval_mul_rep {prim}.
Arguments eval_mul_int {prim}.
Arguments eval_add_list {prim}.
Arguments eval_listlit1 {prim}.
Arguments eval_range {prim}.
Arguments eval_add_Q_int {prim}.
Arguments eval_mul_Q {prim}.
Arguments eval_slice_str {prim}.
Arguments eval_toint_int {prim}.
Arguments eval_sub_int {prim}.
Arguments eval_eq_int {prim}.
Arguments eval_lt_Q {prim}.
Arguments eval_call1 {prim}.
Arguments eval_call2 {prim}.
Arguments eval_call3 {prim}.
Arguments eval_listlit2 {prim}.
Arguments eval_const {prim}.
Arguments eval_slice_list {prim}.
Arguments eval_index_list {prim}.
Arguments eval_add_int {prim}.
Arguments eval_add_Q {prim}.
Arguments eval_sub_Q {prim}.
Arguments exec_assign_ok {prim wfuel}.
Arguments exec_setitem_list {prim wfuel}.
Arguments exec_if_true {prim wfuel}.
Arguments exec_setitem_dict {prim wfuel}.
Arguments exec_append_ok {prim wfuel}.
Arguments exec_if_false {prim wfuel}.
Arguments exec_return_ok {prim wfuel}.
Arguments exec_list_cons {prim wfuel}.
Arguments exec_list_app {prim wfuel}.
Arguments exec_split {prim wfuel}.
Arguments exec_while {prim wfuel}.
Arguments exec_spine {prim wfuel}.
Arguments eval_comp {prim}.
Arguments eval_enumfilter {prim}.
Arguments run_loop_rule {prim wfuel S}.
Definition noprim : string -> list value -> value := fun _ _ => VErr.
