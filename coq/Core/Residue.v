(* Core/Residue.v — the 20 amino acids, their one-letter codes, charge classes.
   Shared by every model.  No proofs about the Python code live here. *)
From Coq Require Import List Ascii String ZArith Bool.
Import ListNotations.
Local Open Scope string_scope.

Inductive aa :=
  Ala | Cys | Asp | Glu | Phe | Gly | His | Ile | Lys | Leu
| Met | Asn | Pro | Gln | Arg | Ser | Thr | Val | Trp | Tyr.

Definition all20 : list aa :=
  [Ala; Cys; Asp; Glu; Phe; Gly; His; Ile; Lys; Leu;
   Met; Asn; Pro; Gln; Arg; Ser; Thr; Val; Trp; Tyr].

Definition aa_idx (a : aa) : nat :=
  match a with
  | Ala => 0 | Cys => 1 | Asp => 2 | Glu => 3 | Phe => 4 | Gly => 5 | His => 6
  | Ile => 7 | Lys => 8 | Leu => 9 | Met => 10 | Asn => 11 | Pro => 12
  | Gln => 13 | Arg => 14 | Ser => 15 | Thr => 16 | Val => 17 | Trp => 18
  | Tyr => 19
  end.

Definition aa_eqb (a b : aa) : bool := Nat.eqb (aa_idx a) (aa_idx b).

Lemma aa_eqb_spec a b : reflect (a = b) (aa_eqb a b).
Proof. destruct a, b; vm_compute; constructor; congruence. Qed.

Lemma aa_eqb_refl a : aa_eqb a a = true.
Proof. destruct a; reflexivity. Qed.

Lemma aa_eqb_eq a b : aa_eqb a b = true <-> a = b.
Proof. destruct (aa_eqb_spec a b); split; congruence. Qed.

Lemma aa_eq_dec (a b : aa) : {a = b} + {a <> b}.
Proof. decide equality. Defined.

Lemma all20_complete a : In a all20.
Proof. destruct a; simpl; tauto. Qed.

Lemma all20_nodup : NoDup all20.
Proof.
  unfold all20. repeat (constructor; [simpl; intuition congruence|]). constructor.
Qed.

Definition mem_aa (x : aa) (l : list aa) : bool := existsb (aa_eqb x) l.

Lemma mem_aa_In x l : mem_aa x l = true <-> In x l.
Proof.
  unfold mem_aa. rewrite existsb_exists. split.
  - intros [y [Hy He]]. apply aa_eqb_eq in He. subst. exact Hy.
  - intros H. exists x. split; [exact H | apply aa_eqb_refl].
Qed.

(* one-letter code *)
Definition aa_char (a : aa) : ascii :=
  match a with
  | Ala => "A" | Cys => "C" | Asp => "D" | Glu => "E" | Phe => "F" | Gly => "G"
  | His => "H" | Ile => "I" | Lys => "K" | Leu => "L" | Met => "M" | Asn => "N"
  | Pro => "P" | Gln => "Q" | Arg => "R" | Ser => "S" | Thr => "T" | Val => "V"
  | Trp => "W" | Tyr => "Y"
  end%char.

Definition aa_of_char (c : ascii) : option aa :=
  find (fun a => Ascii.eqb (aa_char a) c) all20.

Lemma aa_of_char_char a : aa_of_char (aa_char a) = Some a.
Proof. destruct a; reflexivity. Qed.

Lemma aa_of_char_some c a : aa_of_char c = Some a -> aa_char a = c.
Proof.
  unfold aa_of_char. intros H. apply find_some in H. destruct H as [_ H].
  apply Ascii.eqb_eq in H. exact H.
Qed.

(* three-letter code, as used as dictionary key in data/aminoacids.py *)
Definition aa_three (a : aa) : string :=
  match a with
  | Ala => "ALA" | Cys => "CYS" | Asp => "ASP" | Glu => "GLU" | Phe => "PHE"
  | Gly => "GLY" | His => "HIS" | Ile => "ILE" | Lys => "LYS" | Leu => "LEU"
  | Met => "MET" | Asn => "ASN" | Pro => "PRO" | Gln => "GLN" | Arg => "ARG"
  | Ser => "SER" | Thr => "THR" | Val => "VAL" | Trp => "TRP" | Tyr => "TYR"
  end.

(* strings <-> residue lists *)
Fixpoint parse_chars (cs : list ascii) : option (list aa) :=
  match cs with
  | [] => Some []
  | c :: cs' =>
      match aa_of_char c, parse_chars cs' with
      | Some a, Some l => Some (a :: l)
      | _, _ => None
      end
  end.

Definition parse_seq (s : string) : option (list aa) :=
  parse_chars (list_ascii_of_string s).

Definition show_seq (l : list aa) : string :=
  string_of_list_ascii (map aa_char l).

Lemma parse_chars_show l : parse_chars (map aa_char l) = Some l.
Proof.
  induction l as [|a l IH]; simpl; [reflexivity|].
  rewrite aa_of_char_char, IH. reflexivity.
Qed.

Lemma parse_show l : parse_seq (show_seq l) = Some l.
Proof.
  unfold parse_seq, show_seq. rewrite list_ascii_of_string_of_list_ascii.
  apply parse_chars_show.
Qed.

(* charge class: the statement of every patterning property
   (K,R positive; D,E negative; everything else neutral) *)
Definition chg (a : aa) : Z :=
  match a with
  | Lys | Arg => 1
  | Asp | Glu => -1
  | _ => 0
  end%Z.

Definition pat (s : list aa) : list Z := map chg s.

(* generic association-list lookup used by generated tables *)
Fixpoint assoc {B} (k : string) (l : list (string * B)) : option B :=
  match l with
  | [] => None
  | (k', v) :: l' => if String.eqb k k' then Some v else assoc k l'
  end.

Definition str1 (c : ascii) : string := String c EmptyString.
Definition aa_str (a : aa) : string := str1 (aa_char a).

(* indices of failing cases: used by every Cases/*.v file *)
Fixpoint failing_from {X} (chk : X -> bool) (i : nat) (l : list X) : list nat :=
  match l with
  | [] => []
  | x :: l' => if chk x then failing_from chk (S i) l' else i :: failing_from chk (S i) l'
  end.
Definition failing {X} (chk : X -> bool) (l : list X) : list nat := failing_from chk 0 l.

Fixpoint assoc_z {B} (k : Z) (l : list (Z * B)) : option B :=
  match l with
  | [] => None
  | (k', v) :: l' => if Z.eqb k k' then Some v else assoc_z k l'
  end.
