#!/bin/bash
# usage: iso_run.sh <name> <tier> <ids...> — run checks from an isolated copy of /verif (under /tmp/ev/<name>) against /repo as it is
set -u
NAME=$1; TIER=$2; shift 2
EV=/tmp/ev/$NAME
rm -rf $EV; mkdir -p $EV
rsync -a --exclude .git --exclude .work --exclude 'replays/*' --exclude 'coq/Cases' /verif/ $EV/verif/
for id in "$@"; do
  s=$(date +%s)
  out=$(cd $EV/verif && ./check $id --tier $TIER 2>&1 | grep -v "^$" | tail -4)
  echo "$out" | cut -c1-220
  echo "## $id $TIER wall=$(( $(date +%s) - s ))s"
done
echo "iso_run done"
