#!/bin/bash
# re-run every stored seeded defect against the current machinery (4 at a time); summary in seeded/REGRESSION.txt
cd /verif
ls seeded | grep -v "\.txt$\|\.md$" > /tmp/seed_list.txt
rm -f /tmp/regress_*.log
cat /tmp/seed_list.txt | xargs -P 4 -I{} sh -c 'tools/seed_recheck.sh {} > /tmp/regress_{}.log 2>&1'
( echo "# seed regression $(date -u +%FT%TZ): <seed> check=<id> violations=<VIOLATION lines> tie_only=<of which no-failing-input-found>"; cat /tmp/regress_*.log | grep "check=" | sort ) > seeded/REGRESSION.txt
grep -c "violations=0" seeded/REGRESSION.txt
