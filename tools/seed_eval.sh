#!/bin/bash
# usage: seed_eval.sh <ID> [extra check ids...]   — confirm a seeded defect and run our checks against it
set -u
ID=$1; shift
WT=/tmp/wt/$ID
DST=/verif/seeded/$ID
mkdir -p $DST
cp $WT/_seed/patch.diff $WT/_seed/demo.py $DST/ 2>/dev/null
cp $WT/_seed/meta.json $DST/meta.agent.json 2>/dev/null
cd $WT && git checkout -q -- localcider && rm -rf localcider/__pycache__
PYTHONPATH=$WT /venv/bin/python -W ignore $DST/demo.py >/dev/null 2>&1; clean_rc=$?
git apply $DST/patch.diff || { echo "patch does not apply"; exit 2; }
PYTHONPATH=$WT /venv/bin/python -W ignore $DST/demo.py > $DST/demo.out 2>&1; seeded_rc=$?
tests=$(cd $WT && /venv/bin/python -m pytest -q -p no:cacheprovider --timeout=900 --continue-on-collection-errors localcider/tests 2>&1 | tail -1)
git checkout -q -- localcider
echo "demo clean rc=$clean_rc seeded rc=$seeded_rc; tests with patch: $tests"
# now our checks against /repo with the patch
cd /repo && git status --short | grep -q . && { echo "/repo not clean"; exit 3; }
git -C /repo apply $DST/patch.diff || exit 4
res=""
for c in $ID "$@"; do
  out=$(cd /verif && ./check $c --tier quick 2>&1 | grep -v "^$" | tail -6)
  rc=$(echo "$out" | grep -c "^VIOLATION")
  echo "--- check $c: VIOLATION lines=$rc"; echo "$out" | cut -c1-300
  res="$res $c:$rc"
done
git -C /repo checkout -- .
find /verif/replays -name '*.json' -newer $DST/patch.diff -exec cp {} $DST/ \; 2>/dev/null
echo "{\"demo_clean_rc\": $clean_rc, \"demo_seeded_rc\": $seeded_rc, \"tests_with_patch\": \"$tests\", \"checks\": \"$res\"}" > $DST/eval.json
cat $DST/eval.json
