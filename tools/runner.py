#!/venv/bin/python
"""runner.py — one entry point for every check (see DESIGN.md §3).

  ./check --setup
  ./check Cxx [--tier quick|thorough] [--replay file]

Steps of one check: regenerate coq/Gen from /repo's working tree, rebuild the Coq
library (make, full .vo), re-compile the property's proof obligations
(Props/Cxx.v + Props/Tie/*.v, every run, one coqc each, Print Assumptions
captured), run the correspondence (implementation outputs written into
Cases/*.v, compared inside Coq by vm_compute), replay known findings, decide,
write evidence/Cxx.json.
"""
import argparse
import concurrent.futures as cf
import fcntl
import hashlib
import importlib
import json
import os
import random
import re
import shutil
import subprocess
import sys
import time

ROOT = os.path.dirname(os.path.dirname(os.path.abspath(__file__)))
COQ = os.path.join(ROOT, 'coq')
REPO = os.environ.get('LOCALCIDER_REPO', '/repo')
WORK = os.path.join(ROOT, '.work')
NCPU = min(16, os.cpu_count() or 4)

os.environ.setdefault('PYTHONHASHSEED', '0')
os.environ['MPLBACKEND'] = 'Agg'
os.environ['LOCALCIDER_VERIF'] = '1'
os.environ['PIP_NO_INDEX'] = '1'
sys.path.insert(0, REPO)
sys.path.insert(0, os.path.join(ROOT, 'tools'))
sys.dont_write_bytecode = True

FORBIDDEN = re.compile(
    r'\b(Admitted|admit|Axiom|Axioms|Parameter|Parameters|Conjecture|Admit Obligations|'
    r'Unset Guard Checking|Unset Positivity Checking|Unset Universe Checking|bypass_check|'
    r'native_compute|type-in-type|impredicative-set)\b')

KERNEL_TB = [
    'Coq 8.16.1 kernel (coqc, full .vo build; vm_compute used for evaluation; no native_compute)',
    'tools/py2coq translator (Python ast of /repo sources -> coq/Gen/*.v, fail-closed)',
    'coq/Core/MiniPy.v: the interpreter that gives meaning to translated function bodies (a model of Python semantics for the fragment; '
    'float literals read as the decimals written, strings as lists of 8-bit characters)',
    'correspondence harness tools/props + tools/harness (generators, canonicalisers; comparison runs inside Coq)',
    'hand-written Spec/ transcriptions of the documented tables/partitions/thresholds',
]


def sh(cmd, timeout, cwd=None, env=None):
    try:
        p = subprocess.run(cmd, cwd=cwd, env=env, stdout=subprocess.PIPE, stderr=subprocess.STDOUT,
                           timeout=timeout, text=True, errors='replace')
        return p.returncode, p.stdout
    except subprocess.TimeoutExpired as e:
        out = e.stdout if isinstance(e.stdout, str) else (e.stdout or b'').decode('utf-8', 'replace')
        return 124, out + '\n[timeout after %ss]' % timeout


class Lock:
    def __enter__(self):
        os.makedirs(COQ, exist_ok=True)
        self.fh = open(os.path.join(COQ, '.lock'), 'w')
        fcntl.flock(self.fh, fcntl.LOCK_EX)
        return self

    def __exit__(self, *a):
        fcntl.flock(self.fh, fcntl.LOCK_UN)
        self.fh.close()


# ------------------------------------------------------------------ library build

def regen():
    from py2coq import gen_all
    return gen_all.run(REPO, os.path.join(COQ, 'Gen'))


def lib_files():
    fs = []
    for line in open(os.path.join(COQ, '_CoqProject')):
        line = line.strip()
        if line.endswith('.v'):
            fs.append(line)
    return fs


def build_lib(timeout=3000):
    """make the library (Core, Spec, Model, Proofs, Gen). Returns (ok, log)."""
    mk = os.path.join(COQ, 'Makefile')
    cp = os.path.join(COQ, '_CoqProject')
    if not os.path.exists(mk) or os.path.getmtime(mk) < os.path.getmtime(cp):
        rc, out = sh(['coq_makefile', '-f', '_CoqProject', '-o', 'Makefile'], 120, cwd=COQ)
        if rc != 0:
            return False, out
    rc, out = sh(['make', '-k', '-j%d' % NCPU], timeout, cwd=COQ)
    return rc == 0, out


def forbidden_scan():
    bad = []
    for d, _, fs in os.walk(COQ):
        if os.sep + 'Cases' in d:
            continue
        for f in fs:
            if f.endswith('.v') or f == '_CoqProject':
                p = os.path.join(d, f)
                txt = open(p, encoding='utf-8').read()
                txt = re.sub(r'\(\*.*?\*\)', '', txt, flags=re.S)
                for m in FORBIDDEN.finditer(txt):
                    bad.append('%s: %s' % (os.path.relpath(p, COQ), m.group(0)))
    return bad


THM = re.compile(r'^\s*(Theorem|Lemma|Corollary|Example|Fact|Proposition)\s+([A-Za-z0-9_\']+)', re.M)


def compile_obligation(rel, work, timeout=600):
    """coqc one Props file into the scratch dir; parse Print Assumptions output."""
    src = os.path.join(COQ, rel)
    name = os.path.basename(rel)[:-2]
    dst = os.path.join(work, 'obl', os.path.dirname(rel))
    os.makedirs(dst, exist_ok=True)
    vcopy = os.path.join(dst, name + '.v')
    shutil.copy(src, vcopy)
    txt = open(src, encoding='utf-8').read()
    thms = [m.group(2) for m in THM.finditer(re.sub(r'\(\*.*?\*\)', '', txt, flags=re.S))]
    t0 = time.time()
    rc, out = sh(['coqc', '-q', '-R', COQ, 'LC', '-w', '-all', vcopy], timeout, cwd=dst)
    axioms, in_ax = set(), False
    for line in out.splitlines():
        if line.startswith('Axioms:'):
            in_ax = True
        elif line.startswith('Closed under') or not line.strip():
            in_ax = False
        elif in_ax and line[:1] not in (' ', '\t'):
            axioms.add(re.split(r'[\s:]', line, 1)[0])
    axioms = sorted(axioms)
    closed = out.count('Closed under the global context')
    return {'file': rel, 'ok': rc == 0, 'theorems': thms, 'closed': closed, 'axioms': axioms,
            'secs': round(time.time() - t0, 2), 'log': out[-3000:] if rc != 0 else ''}


# ------------------------------------------------------------------ cases

class Case:
    __slots__ = ('coq', 'descr', 'key', 'nontrivial')

    def __init__(self, coq, descr, key=None, nontrivial=True):
        self.coq, self.descr = coq, descr
        self.key = key if key is not None else coq
        self.nontrivial = nontrivial


class CaseSet:
    def __init__(self, name, imports, ctype, checker, cases, shard=400, preamble=''):
        self.name, self.imports, self.ctype, self.checker = name, imports, ctype, checker
        self.cases, self.shard, self.preamble = cases, shard, preamble


RES = re.compile(r'=\s*(\[.*?\])\s*:\s*list nat', re.S)


def run_caseset(cs, work, timeout=900):
    """-> (failing case objects, errors)"""
    d = os.path.join(work, 'Cases')
    os.makedirs(d, exist_ok=True)
    shards = [cs.cases[i:i + cs.shard] for i in range(0, len(cs.cases), cs.shard)]
    files = []
    for k, sh_cases in enumerate(shards):
        p = os.path.join(d, '%s_%d.v' % (cs.name, k))
        with open(p, 'w') as fh:
            fh.write(cs.imports + '\n' + cs.preamble + '\n')
            fh.write('Definition cases : list (%s) :=\n [ ' % cs.ctype)
            fh.write('\n ; '.join(c.coq for c in sh_cases))
            fh.write(' ].\n')
            fh.write('Eval vm_compute in (failing (%s) cases).\n' % cs.checker)
        files.append(p)

    def one(p):
        return sh(['coqc', '-q', '-R', COQ, 'LC', '-w', '-all', p], timeout, cwd=d)

    failing, errors = [], []
    with cf.ThreadPoolExecutor(NCPU) as ex:
        for k, (rc, out) in enumerate(ex.map(one, files)):
            m = RES.search(out)
            if rc != 0 or not m:
                errors.append('%s shard %d: rc=%d %s' % (cs.name, k, rc, out[-1500:]))
                continue
            for idx in re.findall(r'\d+', m.group(1)):
                failing.append(shards[k][int(idx)])
    return failing, errors


# ------------------------------------------------------------------ findings

def load_findings(pid):
    out = []
    p = os.path.join(ROOT, 'known_findings.txt')
    if not os.path.exists(p):
        return out
    for line in open(p):
        line = line.strip()
        if not line or line.startswith('#'):
            continue
        kind = line.split(':', 1)[0]
        kv = dict(re.findall(r'(\w+)=(\S+)', line))
        if kv.get('property') == pid:
            out.append({'kind': kind, 'line': line, **kv})
    return out


# ------------------------------------------------------------------ one check

class Ctx:
    def __init__(self, pid, tier, seed, work):
        self.pid, self.tier, self.seed, self.work = pid, tier, seed, work
        self.rng = random.Random('%s-%d' % (pid, seed))
        self.quick = tier == 'quick'
        self.findings = load_findings(pid)
        self.notes = {}

    def pick(self, q, t):
        return q if self.quick else t


def write_replay(pid, obj):
    os.makedirs(os.path.join(ROOT, 'replays'), exist_ok=True)
    blob = json.dumps(obj, sort_keys=True, default=str)
    h = hashlib.sha1(blob.encode()).hexdigest()[:10]
    p = os.path.join(ROOT, 'replays', '%s-%s.json' % (pid, h))
    with open(p, 'w') as fh:
        json.dump(obj, fh, indent=1, sort_keys=True, default=str)
    return os.path.relpath(p, ROOT)


def check(pid, tier, seed):
    t0 = time.time()
    mod = importlib.import_module('props.' + pid.lower())
    work = os.path.join(WORK, '%s-%d' % (pid, os.getpid()))
    shutil.rmtree(work, ignore_errors=True)
    os.makedirs(work)
    ctx = Ctx(pid, tier, seed, work)
    violations = []      # (replay obj, suffix)
    known_lines = []
    try:
        with Lock():
            gen_failed = regen()
            lib_ok, lib_log = build_lib()
        bad = forbidden_scan()
        # --- proof obligations
        obls = list(mod.OBLIGATIONS) + list(getattr(mod, 'THOROUGH_OBLIGATIONS', []) if tier == 'thorough' else [])
        with cf.ThreadPoolExecutor(NCPU) as ex:
            ob = list(ex.map(lambda r: compile_obligation(r, work), obls))
        broken = [o for o in ob if not o['ok']]
        n_thm = sum(max(1, len(o['theorems'])) for o in ob)
        n_ok = sum(max(1, len(o['theorems'])) for o in ob if o['ok'])
        if bad:
            broken.append({'file': 'forbidden-vernacular', 'log': '; '.join(bad)})
        if not lib_ok:
            broken.append({'file': 'library-build', 'log': lib_log[-3000:]})
        # --- correspondence
        casesets = mod.build(ctx) if lib_ok or True else []
        all_cases, failing, errors = [], [], []
        for cs in casesets:
            all_cases += cs.cases
            f, e = run_caseset(cs, work)
            failing += f
            errors += e
        for e in errors:
            broken.append({'file': 'correspondence-shard', 'log': e})
        direct = list(getattr(ctx, 'direct_failures', []))
        for d in direct[:5]:
            violations.append(({'kind': 'property-violated-on-the-implementation (outside the model domain or direct check)',
                                'case': d, 'seed': seed, 'tier': tier}, ''))
        # --- known findings replay
        for fnd in ctx.findings:
            if fnd['kind'] == 'finding':
                still, text = mod.replay_finding(ctx, fnd)
                if still:
                    known_lines.append('KNOWN-FINDING: property=%s %s' % (pid, text))
            elif fnd['kind'] == 'fixed' and hasattr(mod, 'replay_fixed'):
                r = mod.replay_fixed(ctx, fnd)
                if r is not None:
                    violations.append(({'kind': 'regression-of-fixed-defect', 'entry': fnd['line'], 'detail': r}, ''))
        # --- classify disagreements
        n_known = 0
        for c in failing[:50]:
            r = mod.classify(ctx, c) if hasattr(mod, 'classify') else None
            if r is None:
                violations.append(({'kind': 'model-implementation-disagreement', 'case': c.descr,
                                    'seed': seed, 'tier': tier}, ''))
            elif isinstance(r, dict):
                violations.append((r, ''))
            else:
                n_known += 1
        if hasattr(mod, 'post'):
            for r in mod.post(ctx, all_cases, failing, known_lines):
                violations.append((r, ''))
        # --- search when an obligation is broken and no concrete input yet
        if broken and not violations:
            r = mod.search(ctx, broken, all_cases) if hasattr(mod, 'search') else None
            if r is not None:
                r.setdefault('broken_obligations', [b['file'] for b in broken])
                violations.append((r, ''))
            else:
                violations.append(({'kind': 'obligation-no-longer-checks',
                                    'broken_obligations': [{'file': b['file'], 'log': b.get('log', '')[-1500:]}
                                                           for b in broken],
                                    'gen_untranslatable': gen_failed}, ' no-failing-input-found'))
        # --- evidence
        keys = set()
        nontriv = set()
        for c in all_cases:
            keys.add(c.key)
            if c.nontrivial:
                nontriv.add(c.key)
        samples = [c.descr for c in all_cases[:: max(1, len(all_cases) // 5)][:6]] or \
                  [{'obligation': o['file'], 'theorems': o['theorems'][:8]} for o in ob[:3]]
        axioms = sorted({a for o in ob for a in o['axioms']})
        ev = {
            'property_id': pid, 'tier': tier, 'seed': seed, 'level': 'proof',
            'coverage': {
                'obligations': n_thm, 'discharged': n_ok,
                'checker_cmd': 'coqc -q -R /verif/coq LC <each of: %s> (after make -k in /verif/coq)' % ' '.join(obls),
                'trusted_base': KERNEL_TB + list(getattr(mod, 'TRUSTED', [])) +
                                (['stdlib axioms reported by Print Assumptions: ' + ', '.join(axioms)] if axioms
                                 else ['Print Assumptions: all theorems closed under the global context']),
                'obligation_files': [{k: o[k] for k in ('file', 'ok', 'theorems', 'closed', 'axioms', 'secs')} for o in ob],
                'evaluations': len(all_cases),
                'distinct_nontrivial': len(nontriv),
                'distinct': len(keys),
                'rule': getattr(mod, 'RULE', ''),
                'samples': samples,
                'disagreements': len(failing),
                'direct_failures': len(direct),
                'disagreements_matching_known_finding': n_known,
                'gen_untranslatable': gen_failed,
                'notes': ctx.notes,
            },
            'assumptions': list(getattr(mod, 'ASSUMPTIONS', [])),
            'wall_s': round(time.time() - t0, 2),
            'violations': len(violations),
        }
        os.makedirs(os.path.join(ROOT, 'evidence'), exist_ok=True)
        with open(os.path.join(ROOT, 'evidence', pid + '.json'), 'w') as fh:
            json.dump(ev, fh, indent=1, default=str)
        for l in known_lines:
            print(l)
        print('%s %s: obligations %d/%d, cases %d (distinct non-trivial %d), disagreements %d, %.1fs' %
              (pid, tier, n_ok, n_thm, len(all_cases), len(nontriv), len(failing), time.time() - t0))
        if violations:
            for obj, suffix in violations[:5]:
                obj['property'] = pid
                print('VIOLATION property=%s replay=%s%s' % (pid, write_replay(pid, obj), suffix))
            return 1
        return 0
    finally:
        if not os.environ.get("VERIF_KEEP_WORK"): shutil.rmtree(work, ignore_errors=True)


def setup():
    t0 = time.time()
    os.makedirs(WORK, exist_ok=True)
    with Lock():
        failed = regen()
        ok, log = build_lib()
    print(log[-2500:])
    bad = forbidden_scan()
    if bad:
        print('forbidden vernacular:', bad)
    print('setup: library build %s, untranslatable=%s, %.1fs' % ('ok' if ok else 'FAILED', failed, time.time() - t0))
    return 0 if ok and not bad else 1


def replay(pid, path):
    mod = importlib.import_module('props.' + pid.lower())
    obj = json.load(open(path))
    ctx = Ctx(pid, 'quick', 0, WORK)
    if hasattr(mod, 'replay'):
        print(json.dumps(mod.replay(ctx, obj), indent=1, default=str))
    else:
        print(json.dumps(obj, indent=1))
    return 0


def main():
    ap = argparse.ArgumentParser()
    ap.add_argument('pid', nargs='?')
    ap.add_argument('--setup', action='store_true')
    ap.add_argument('--tier', default=os.environ.get('VERIF_TIER', 'quick'))
    ap.add_argument('--replay')
    a = ap.parse_args()
    if a.setup:
        sys.exit(setup())
    seed = int(os.environ.get('VERIF_SEED', '0') or 0)
    if a.replay:
        sys.exit(replay(a.pid, a.replay))
    sys.exit(check(a.pid, a.tier if a.tier in ('quick', 'thorough') else 'quick', seed))


if __name__ == '__main__':
    main()
