#!/bin/bash
# usage: seed_recheck.sh <TAG> [check ids...] — re-run our quick check(s) against a stored seeded defect (seeded/<TAG>/patch.diff)
# in an isolated copy of /verif and a scratch worktree of /repo; prints one summary line; appends to seeded/<TAG>/recheck.log
set -u
TAG=$1; shift
PID=${TAG:0:3}
EV=/tmp/ev/re_$TAG
[ -d $EV ] && { git -C /repo worktree remove --force $EV/repo 2>/dev/null; rm -rf $EV; }
mkdir -p $EV
rsync -a --exclude .git --exclude .work --exclude 'replays/*' --exclude 'coq/Cases' /verif/ $EV/verif/
git -C /repo worktree add --detach -q $EV/repo HEAD
git -C $EV/repo apply /verif/seeded/$TAG/patch.diff || { echo "$TAG: patch does not apply"; exit 4; }
ids="$*"; [ -z "$ids" ] && ids=$PID
for c in $ids; do
  out=$(cd $EV/verif && LOCALCIDER_REPO=$EV/repo ./check $c --tier quick 2>&1 | grep -v "^$")
  v=$(echo "$out" | grep -c "^VIOLATION"); n=$(echo "$out" | grep -c "no-failing-input-found")
  line="$TAG check=$c violations=$v tie_only=$n :: $(echo "$out" | grep " quick: " | cut -c1-160)"
  echo "$line"; echo "$(date -u +%FT%TZ) $line" >> /verif/seeded/$TAG/recheck.log
done
git -C /repo worktree remove --force $EV/repo; rm -rf $EV
