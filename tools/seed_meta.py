#!/usr/bin/env python3
"""seed_meta.py TAG first_run now  — write seeded/TAG/meta.json from the agent's meta, our eval.json and two remarks"""
import json, sys, os
tag, first, now = sys.argv[1:4]
d = '/verif/seeded/' + tag
a = json.load(open(d + '/meta.agent.json')) if os.path.exists(d + '/meta.agent.json') else {}
e = json.load(open(d + '/eval.json'))
m = {'property': tag[:3], 'summary': a.get('summary'), 'needs': a.get('needs'), 'files_changed': a.get('files_changed'),
     'confirmed': {'demo_exit_on_clean_tree': e['demo_clean_rc'], 'demo_exit_with_patch': e['demo_seeded_rc'],
                   'test_suite_with_patch': e['tests_with_patch']},
     'what_was_run': 'tools/seed_eval2.sh %s: demo.py on the scratch worktree with and without patch.diff, pytest with the patch, then the '
                     'quick check against a scratch worktree of /repo with the patch applied (isolated copy of /verif)' % tag,
     'our_check': {'violation_lines': e['checks'].strip(), 'caught': not e['checks'].strip().endswith(':0'),
                   'first_run': first, 'now': now}}
json.dump(m, open(d + '/meta.json', 'w'), indent=1)
print(tag, m['our_check'])
