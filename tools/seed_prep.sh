#!/bin/bash
# usage: seed_prep.sh <ID> <suffix>   — make scratch worktree /tmp/wt/<ID><suffix> and the agent prompt for a further seeded defect
set -eu
ID=$1; SUF=$2; TAG=$ID$SUF; WT=/tmp/wt/$TAG
mkdir -p /tmp/wt
[ -d $WT ] || git -C /repo worktree add --detach -q $WT HEAD
python3 - "$ID" "$TAG" "$WT" <<'PY'
import json,sys,glob,os
pid,tag,wt=sys.argv[1:4]
prop=None
for l in open('/verif/properties.jsonl'):
    d=json.loads(l)
    if d['id']==pid: prop=d
txt=f"{pid} — {prop['title']}\n\nStatement: {prop['statement']}\n\nQuantified over: {prop.get('quantifier','')}\n"
prev=[]
for m in sorted(glob.glob(f'/verif/seeded/{pid}*/meta*.json')):
    try:
        x=json.load(open(m)).get('summary','')
        if x and x not in prev: prev.append(x)
    except Exception: pass
t=open('/verif/tools/seed_prompt.tmpl').read().replace('__WT__',wt).replace('__PROP__',txt).replace('__ID__',pid)
if prev:
    t+="\n\nEarlier rounds already produced the following change(s) for this property; produce a DIFFERENT defect (different function, mechanism and triggering condition):\n"+"\n".join(" - "+p for p in prev)+"\n"
open(f'/tmp/wt/{tag}.prompt.txt','w').write(t)
PY
echo $WT
