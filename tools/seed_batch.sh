#!/bin/bash
# usage: seed_batch.sh <tag>...  — evaluate several fresh seeds (seed_eval2), 4 at a time; one summary line per seed
printf "%s\n" "$@" | xargs -P 4 -I{} sh -c 'tools/seed_eval2.sh {} > /tmp/ev_{}.log 2>&1'
for t in "$@"; do
  q=$(grep " quick: " /tmp/ev_$t.log | cut -c1-110); n=$(grep -c "^VIOLATION" /tmp/ev_$t.log); tie=$(grep -c "no-failing-input-found" /tmp/ev_$t.log)
  d=$(grep "^demo clean" /tmp/ev_$t.log | cut -c1-60)
  echo "$t violations=$n tie_only=$tie | $q | $d"
done
