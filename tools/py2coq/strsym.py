"""strsym — symbolic execution of the string-building search in Sequence.deltaMax.

Translates the if/elif regime chain with its nested `for … in range(a, b)` loops that build
`setupSequence` out of '+', '-', '0' blocks into a Coq term
    g_cands (p n z : nat) : list (list Z)
listing, in the code's enumeration order, every reduced sequence handed to Sequence(...).
Fail-closed: any statement/expression outside the handled subset raises Untranslatable.
"""
import ast
from .common import Untranslatable, need, strip_doc

CH = {'+': '1%Z', '-': '(-1)%Z', '0': '0%Z'}
INT_ATOMS = {'self.countPos()': 'p', 'self.countNeg()': 'n', 'self.countNeut()': 'z', 'self.len': '(p + n + z)',
             'len(self.seq)': '(p + n + z)'}
BOOL_ATOMS = {'self.FCR() == 0': '(p + n =? 0)'}
CMP = {ast.Eq: '(%s =? %s)', ast.Gt: '(%s <? %s)', ast.GtE: '(%s <=? %s)', ast.Lt: '(%s <? %s)', ast.LtE: '(%s <=? %s)'}


class StrSym:
    def __init__(self):
        self.fresh = 0

    # ---------------- expressions
    def is_str(self, e, env):
        if isinstance(e, ast.Constant):
            return isinstance(e.value, str)
        if isinstance(e, ast.Name):
            need(e.id in env, 'unknown name %s' % e.id)
            return env[e.id][0] == 's'
        if isinstance(e, ast.BinOp):
            return self.is_str(e.left, env) or self.is_str(e.right, env)
        return False

    def sexpr(self, e, env):
        if isinstance(e, ast.Constant) and isinstance(e.value, str):
            need(all(c in CH for c in e.value), 'string constant outside +-0: %r' % e.value)
            return '[' + '; '.join(CH[c] for c in e.value) + ']'
        if isinstance(e, ast.Name):
            need(e.id in env and env[e.id][0] == 's', 'not a string variable: %s' % e.id)
            return env[e.id][1]
        if isinstance(e, ast.BinOp) and isinstance(e.op, ast.Add):
            return '(List.app %s %s)' % (self.sexpr(e.left, env), self.sexpr(e.right, env))
        if isinstance(e, ast.BinOp) and isinstance(e.op, ast.Mult):
            if self.is_str(e.left, env):
                return '(rep %s %s)' % (self.sexpr(e.left, env), self.iexpr(e.right, env))
            return '(rep %s %s)' % (self.sexpr(e.right, env), self.iexpr(e.left, env))
        raise Untranslatable('string expression %s' % ast.unparse(e)[:60])

    def iexpr(self, e, env):
        key = ast.unparse(e)
        if key in INT_ATOMS:
            return INT_ATOMS[key]
        if isinstance(e, ast.Constant) and isinstance(e.value, int) and not isinstance(e.value, bool) and e.value >= 0:
            return '%d' % e.value
        if isinstance(e, ast.Name):
            need(e.id in env and env[e.id][0] == 'i', 'not an int variable: %s' % e.id)
            return env[e.id][1]
        if isinstance(e, ast.BinOp) and isinstance(e.op, (ast.Add, ast.Sub)):
            return '(%s %s %s)' % (self.iexpr(e.left, env), '+' if isinstance(e.op, ast.Add) else '-', self.iexpr(e.right, env))
        if isinstance(e, ast.Call) and isinstance(e.func, ast.Name) and e.func.id == 'len' and len(e.args) == 1 \
                and self.is_str(e.args[0], env):
            return '(List.length %s)' % self.sexpr(e.args[0], env)
        raise Untranslatable('int expression %s' % key[:60])

    def test(self, t, env):
        key = ast.unparse(t)
        if key in BOOL_ATOMS:
            return BOOL_ATOMS[key]
        if isinstance(t, ast.BoolOp):
            op = '&&' if isinstance(t.op, ast.And) else '||'
            return '(' + (' %s ' % op).join(self.test(v, env) for v in t.values) + ')'
        if isinstance(t, ast.Compare) and len(t.ops) == 1 and type(t.ops[0]) in CMP:
            a, b = self.iexpr(t.left, env), self.iexpr(t.comparators[0], env)
            if isinstance(t.ops[0], (ast.Gt, ast.GtE)):
                a, b = b, a
            return CMP[type(t.ops[0])] % (a, b)
        raise Untranslatable('test %s' % key[:60])

    # ---------------- statements -> Coq term of type list (list Z)
    def block(self, stmts, env):
        """candidates produced by executing stmts (in order), as a Coq list expression"""
        if not stmts:
            return '[]'
        s, rest = stmts[0], stmts[1:]
        u = ast.unparse(s)
        if isinstance(s, (ast.Pass,)) or (isinstance(s, ast.Expr) and isinstance(s.value, ast.Constant)):
            return self.block(rest, env)
        if isinstance(s, ast.Assign) and len(s.targets) == 1 and isinstance(s.targets[0], ast.Name):
            nm = s.targets[0].id
            if nm == 'nseq':
                need(isinstance(s.value, ast.Call) and ast.unparse(s.value.func) == 'Sequence' and len(s.value.args) == 1
                     and not s.value.keywords, 'nseq = Sequence(<str>) expected')
                cand = self.sexpr(s.value.args[0], env)
                # the statement that follows must be the running-maximum update
                need(rest and isinstance(rest[0], ast.If) and ast.unparse(rest[0].test) == 'self.dmax < nseq.delta()',
                     'candidate not followed by `if self.dmax < nseq.delta()`')
                upd = [ast.unparse(x) for x in rest[0].body]
                need(upd and upd[0] == 'self.dmax = nseq.delta()' and not rest[0].orelse, 'running-maximum update shape')
                more = self.block(rest[1:], env)
                return '[%s]' % cand if more == '[]' else '(%s :: %s)' % (cand, more)
            env2 = dict(env)
            if self.is_str(s.value, env):
                env2[nm] = ('s', self.sexpr(s.value, env))
            else:
                env2[nm] = ('i', self.iexpr(s.value, env))
            return self.block(rest, env2)
        if isinstance(s, ast.AugAssign) and isinstance(s.target, ast.Name) and isinstance(s.op, ast.Add):
            nm = s.target.id
            need(nm in env, 'augmented assignment to unknown %s' % nm)
            env2 = dict(env)
            if env[nm][0] == 's':
                env2[nm] = ('s', '(List.app %s %s)' % (env[nm][1], self.sexpr(s.value, env)))
            else:
                env2[nm] = ('i', '(%s + %s)' % (env[nm][1], self.iexpr(s.value, env)))
            return self.block(rest, env2)
        if isinstance(s, ast.If):
            # length sanity check that only raises: no candidates, no state change
            if len(s.body) == 1 and isinstance(s.body[0], ast.Raise) and not s.orelse:
                need(u.startswith('if not len(setupSequence) == self.len:'), 'unexpected raising guard: ' + u[:50])
                return self.block(rest, env)
            c = self.test(s.test, env)
            a = self.block(list(s.body) + rest, env)
            b = self.block(list(s.orelse) + rest, env)
            return '(if %s then %s else %s)' % (c, a, b)
        if isinstance(s, ast.For):
            need(isinstance(s.target, ast.Name) and isinstance(s.iter, ast.Call) and ast.unparse(s.iter.func) == 'range'
                 and len(s.iter.args) == 2 and not s.orelse, 'for loop shape')
            lo, hi = self.iexpr(s.iter.args[0], env), self.iexpr(s.iter.args[1], env)
            self.fresh += 1
            v = 'i_%s%d' % (s.target.id, self.fresh)
            env2 = dict(env)
            env2[s.target.id] = ('i', v)
            body = self.block(list(s.body), env2)
            # variables assigned inside the loop do not matter after it (each iteration rebuilds them)
            more = self.block(rest, env)
            loop = '(flat_map (fun %s => %s) (seq %s (%s - %s)))' % (v, body, lo, hi, lo)
            return loop if more == '[]' else '(List.app %s %s)' % (loop, more)
        raise Untranslatable('statement %s' % u[:70])


def translate_deltamax(func):
    body = strip_doc(list(func.body))
    chains = [s for s in body if isinstance(s, ast.If)]
    ss = StrSym()
    # locate the regime chain: the if whose elif arms contain the loops
    chain = None
    for s in chains:
        if any(isinstance(n, ast.For) for n in ast.walk(s)):
            chain = s
    need(chain is not None, 'regime chain not found')
    node, out = chain, None
    arms = []
    while True:
        arms.append((node.test, node.body))
        if len(node.orelse) == 1 and isinstance(node.orelse[0], ast.If):
            node = node.orelse[0]
        else:
            arms.append((None, node.orelse))
            break
    terms = []
    for test, arm in arms:
        if test is not None and 'self.dmax' in ast.unparse(test):
            # cache short-circuits: they return, producing no candidates; modelled separately (C15)
            need(all(isinstance(x, ast.Return) for x in arm), 'cache arm does more than return')
            continue
        if test is not None and ast.unparse(test) == 'self.FCR() == 0':
            cond = ss.test(test, {})
            terms.append((cond, '[]'))
            continue
        cond = ss.test(test, {}) if test is not None else None
        terms.append((cond, ss.block(list(arm), {})))
    need(terms and terms[-1][0] is None, 'regime chain has no else arm')
    expr = terms[-1][1]
    for cond, t in reversed(terms[:-1]):
        expr = '(if %s then %s\n else %s)' % (cond, t, expr)
    return expr
