"""G4 — backend/sequenceComplexity.py: reduced alphabets."""
import ast
from .common import *
from .pyexpr import Sym, ZBackend

SRC = 'localcider/backend/sequenceComplexity.py'
OUTPUTS = ['GAlphabets']


def _append_target(stmts):
    """`aa.append('L')` or `aa.append(x)` -> Coq expression in variable x."""
    need(len(stmts) == 1 and isinstance(stmts[0], ast.Expr), 'arm is not one expression')
    call = stmts[0].value
    need(isinstance(call, ast.Call) and isinstance(call.func, ast.Attribute)
         and call.func.attr == 'append' and isinstance(call.func.value, ast.Name)
         and call.func.value.id == 'aa' and len(call.args) == 1, 'arm is not aa.append(..)')
    a = call.args[0]
    if isinstance(a, ast.Name):
        need(a.id == 'x', 'append of unknown name')
        return 'x'
    return coq_aa1(const(a))


def _inner_chain(node):
    """if x in (...): aa.append(..) elif ... else: aa.append(..)  ->  Coq term."""
    need(isinstance(node, ast.If), 'expected if-chain inside the loop')
    t = node.test
    need(isinstance(t, ast.Compare) and len(t.ops) == 1 and isinstance(t.ops[0], ast.In)
         and isinstance(t.left, ast.Name) and t.left.id == 'x', 'test is not `x in (...)`')
    members = [coq_aa1(c) for c in str_list(t.comparators[0])]
    then = _append_target(node.body)
    need(len(node.orelse) >= 1, 'chain without else')
    if len(node.orelse) == 1 and isinstance(node.orelse[0], ast.If):
        els = _inner_chain(node.orelse[0])
    else:
        els = _append_target(node.orelse)
    return '(if mem_aa x %s then %s else %s)' % (coq_list(members), then, els)


def _size_of_test(t):
    need(isinstance(t, ast.Compare) and len(t.ops) == 1 and isinstance(t.ops[0], ast.Eq)
         and isinstance(t.left, ast.Name) and t.left.id == 'alphabetSize',
         'outer test is not alphabetSize == k')
    k = const(t.comparators[0])
    need(isinstance(k, int), 'size not an int')
    return k


def _branch(body, names):
    """one `alphabetSize == k` arm -> (alphabet list name, per-residue Coq term)."""
    need(len(body) == 2, 'arm has %d statements' % len(body))
    a0 = body[0]
    need(isinstance(a0, ast.Assign) and len(a0.targets) == 1 and isinstance(a0.targets[0], ast.Name)
         and a0.targets[0].id == 'alphabet' and isinstance(a0.value, ast.Name), 'first stmt not alphabet = name')
    need(a0.value.id in names, 'unknown alphabet list %s' % a0.value.id)
    s1 = body[1]
    if isinstance(s1, ast.For):
        need(isinstance(s1.target, ast.Name) and s1.target.id == 'x' and isinstance(s1.iter, ast.Name)
             and s1.iter.id == 'sequence' and len(s1.body) == 1 and not s1.orelse, 'loop shape')
        term = _inner_chain(s1.body[0])
    else:
        need(isinstance(s1, ast.Assign) and isinstance(s1.targets[0], ast.Name) and s1.targets[0].id == 'aa'
             and isinstance(s1.value, ast.Name) and s1.value.id == 'sequence', 'arm is neither loop nor aa = sequence')
        term = 'x'
    return a0.value.id, term


def generate(repo):
    tree = parse_file(repo + '/' + SRC)
    out = Out('GAlphabets', SRC, ['From Coq Require Import List ZArith Bool.',
                                 'From LC Require Import Core.Residue.',
                                 'Import ListNotations.', 'Local Open Scope Z_scope.'])
    f = find_func(tree, 'reduce_alphabet', 'SequenceComplexity')
    body = strip_doc(f.body)

    def lists():
        names = {}
        for s in body:
            if isinstance(s, ast.Assign) and len(s.targets) == 1 and isinstance(s.targets[0], ast.Name) \
                    and isinstance(s.value, ast.List) and s.value.elts:
                names[s.targets[0].id] = [coq_aa1(c) for c in str_list(s.value)]
        need(len(names) >= 1, 'no representative lists')
        return names

    def allowed():
        for s in body:
            if isinstance(s, ast.If) and isinstance(s.test, ast.Compare) and len(s.test.ops) == 1 \
                    and isinstance(s.test.ops[0], ast.NotIn) and isinstance(s.test.left, ast.Name) \
                    and s.test.left.id == 'alphabetSize':
                need(len(s.body) == 1 and isinstance(s.body[0], ast.Raise), 'size guard does not raise')
                ks = num_list(s.test.comparators[0])
                need(all(isinstance(k, int) for k in ks), 'sizes not ints')
                return 'Definition allowed_sizes : list Z := %s.' % coq_list([coq_z(k) for k in ks])
        raise Untranslatable('size guard `alphabetSize not in [...]` not found')

    def cascade():
        names = lists()
        chain = [s for s in body if isinstance(s, ast.If) and isinstance(s.test, ast.Compare)
                 and isinstance(s.test.ops[0], ast.Eq)]
        need(len(chain) == 1, 'outer size chain not found exactly once')
        node = chain[0]
        arms = []
        while True:
            k = _size_of_test(node.test)
            arms.append((k,) + _branch(node.body, names))
            if len(node.orelse) == 1 and isinstance(node.orelse[0], ast.If):
                node = node.orelse[0]
            else:
                # final else: (print) alphabet = twenty; aa = sequence
                rest = [s for s in node.orelse if not (isinstance(s, ast.Expr) and isinstance(s.value, ast.Call)
                                                       and getattr(s.value.func, 'id', '') == 'print')]
                els = _branch(rest, names)
                break
        red = 'Definition reduce (k : Z) (x : aa) : aa :=\n'
        alp = 'Definition alphabet (k : Z) : list aa :=\n'
        for k, nm, term in arms:
            red += '  if k =? %d then %s else\n' % (k, term)
            alp += '  if k =? %d then %s else\n' % (k, coq_list(names[nm]))
        red += '  %s.' % els[1]
        alp += '  %s.' % coq_list(names[els[0]])
        sizes = 'Definition cascade_sizes : list Z := %s.' % coq_list([coq_z(k) for k, _, _ in arms])
        return red + '\n\n' + alp + '\n\n' + sizes

    def order():
        # the final statement must be `return (''.join(aa), alphabet)`
        last = body[-1]
        need(isinstance(last, ast.Return) and isinstance(last.value, ast.Tuple) and len(last.value.elts) == 2,
             'final return is not a pair')
        j, a = last.value.elts
        need(isinstance(a, ast.Name) and a.id == 'alphabet', 'second component is not alphabet')
        need(isinstance(j, ast.Call) and isinstance(j.func, ast.Attribute) and j.func.attr == 'join'
             and const(j.func.value) == '' and isinstance(j.args[0], ast.Name) and j.args[0].id == 'aa',
             "first component is not ''.join(aa)")
        return 'Definition returns_joined_and_alphabet : bool := true.'

    # get_indexed_complexity_vector and get_WF/LC/LZW_complexity are tied semantically (g_minipy -> Props/Tie/minipy_cxglue_tie.v)
    out.add('allowed_sizes', allowed)
    out.add('reduce', cascade)
    out.add('return_shape', order)
    return out
