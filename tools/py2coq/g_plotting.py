"""G5/G6 — backend/plotting.py polygons of the diagram of states; argument forwarding of every
show_/save_ plotting entry point in sequenceParameters.py and plots.py (callee parameter <- caller
expression, positional and keyword arguments resolved against the callee's def)."""
import ast
from .common import *

OUTPUTS = ['GPlot']


def _bind(call, callee_def, self_call=False):
    params = [a.arg for a in callee_def.args.args]
    if params and params[0] == 'self':
        params = params[1:]
    out = []
    need(len(call.args) <= len(params), 'too many positional arguments for %s' % callee_def.name)
    for p, a in zip(params, call.args):
        need(not isinstance(a, ast.Starred), 'starred argument')
        out.append((p, ' '.join(ast.unparse(a).split())))
    for kw in call.keywords:
        need(kw.arg is not None and kw.arg in params, 'unknown keyword %r' % kw.arg)
        out.append((kw.arg, ' '.join(ast.unparse(kw.value).split())))
    return out


def generate(repo):
    pl = parse_file(repo + '/localcider/backend/plotting.py')
    sp = parse_file(repo + '/localcider/sequenceParameters.py')
    pm = parse_file(repo + '/localcider/plots.py')
    out = Out('GPlot', 'localcider/backend/plotting.py, sequenceParameters.py, plots.py',
              ['From Coq Require Import List QArith String.', 'Import ListNotations.', 'Local Open Scope string_scope.'])
    pdefs = {n.name: n for n in pl.body if isinstance(n, ast.FunctionDef)}

    def polygons(fn, name):
        f = pdefs[fn]
        polys = []
        for n in ast.walk(f):
            if isinstance(n, ast.Call) and ast.unparse(n.func) == 'plt.fill':
                xs, ys = num_list(n.args[0]), num_list(n.args[1])
                need(len(xs) == len(ys), 'fill: coordinate lists differ in length')
                polys.append((n.lineno, coq_list(['(%s, %s)' % (coq_q(x), coq_q(y)) for x, y in zip(xs, ys)])))
        polys.sort()
        return 'Definition %s : list (list (Q * Q)) := %s.' % (name, coq_list([p for _, p in polys]))
    out.add('g_dp_polygons', lambda: polygons('finalize_DasPappu', 'g_dp_polygons'))
    out.add('g_uv_polygons', lambda: polygons('finalize_uversky', 'g_uv_polygons'))

    def forwarding():
        rows = []

        def scan(fdef, owner):
            for n in ast.walk(fdef):
                if isinstance(n, ast.Call) and isinstance(n.func, ast.Attribute) and isinstance(n.func.value, ast.Name) \
                        and n.func.value.id == 'plotting' and n.func.attr in pdefs:
                    b = _bind(n, pdefs[n.func.attr])
                    rows.append((owner + '.' + fdef.name if owner else fdef.name, n.func.attr, b, n.lineno))
        cls = [n for n in sp.body if isinstance(n, ast.ClassDef) and n.name == 'SequenceParameters'][0]
        for f in cls.body:
            if isinstance(f, ast.FunctionDef) and f.name.startswith(('show_', 'save_')):
                scan(f, 'SequenceParameters')
        for f in pm.body:
            if isinstance(f, ast.FunctionDef) and f.name.startswith(('show_', 'save_')):
                scan(f, 'plots')
        need(len(rows) >= 20, 'too few plotting call sites found')
        rows.sort(key=lambda r: (r[0], r[3]))
        return 'Definition g_forwarding : list (string * string * list (string * string)) := %s.' % coq_list(
            ['(%s, %s, %s)' % (coq_str(e), coq_str(c), coq_list(['(%s, %s)' % (coq_str(p), coq_str(x)) for p, x in b]))
             for e, c, b, _ in rows])
    out.add('g_forwarding', forwarding)

    def inner():
        """plotting.show_single_phasePlot & co: marker coordinates, finalize arguments, getFig handling"""
        def W(n):
            return ' '.join(ast.unparse(pdefs[n]).split())
        for fn, a, b in (('show_single_phasePlot', 'single_plot(fp, fn, label, fontSize)', 'finalize_DasPappu(initial_plottingObject, legendOn, title, xLim, yLim)'),
                         ('save_single_phasePlot', 'single_plot(fp, fn, label, fontSize)', 'finalize_DasPappu(initial_plottingObject, legendOn, title, xLim, yLim)'),
                         ('show_single_uverskyPlot', 'single_plot(mean_net_charge, hydropathy, label, fontSize)', 'finalize_uversky(initial_plottingObject, legendOn, title, xLim, yLim)'),
                         ('save_single_uverskyPlot', 'single_plot(mean_net_charge, hydropathy, label, fontSize)', 'finalize_uversky(initial_plottingObject, legendOn, title, xLim, yLim)'),
                         ('show_multiple_phasePlot', 'multiple_plot(fp_list, fn_list, label, fontSize)', 'finalize_DasPappu(initial_plottingObject, legendOn, title, xLim, yLim)'),
                         ('show_multiple_uverskyPlot', 'multiple_plot(mean_net_charge_list, hydropathy_list, label, fontSize)', 'finalize_uversky(initial_plottingObject, legendOn, title, xLim, yLim)')):
            s = W(fn)
            need(a in s and b in s, '%s: marker / finalize call' % fn)
            if fn.startswith('show_'):
                need('if getFig: return finalized_plottingObject' in s, '%s: getFig return' % fn)
        s = W('single_plot')
        need("plt.scatter(x, y, s=50, marker='o', color='Black', zorder=5)" in s and 'x = float(x) y = float(y)' in s, 'single_plot scatter')
        s = W('multiple_plot')
        need("plt.scatter(x, y, s=10, marker='o', color='Black', zorder=2)" in s and 'for x, y, label in zip(x_list, y_list, label_list):' in s, 'multiple_plot scatter')
        for fn in ('finalize_DasPappu', 'finalize_uversky'):
            s = W(fn)
            need('plt.xlim([0, xLim])' in s and 'plt.ylim([0, yLim])' in s and 'plt.title(title, fontproperties=axes_pro)' in s, fn + ': limits/title')
        s = W('show_linearplot')
        need('plt = build_fun(SeqObj, blobLen)' in s and 'if getFig: return plt' in s, 'show_linearplot')
        return 'Definition g_plot_inner_ok : bool := true.'
    out.add('g_plot_inner', inner)
    return out
