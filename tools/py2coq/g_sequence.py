"""G2/G3 — backend/sequence.py: the numeric formulas (FCR, NCPR, sigma, the deltaForm
loop body, delta, kappa, the phasePlotRegion cascade) translated by pyexpr, plus the
literal lists/constants the models depend on."""
import ast
from .common import *
from .pyexpr import Sym, QBackend, FloatBackend, ZBackend
from .strsym import translate_deltamax

SRC = 'localcider/backend/sequence.py'
OUTPUTS = ['GSeq']

COUNTS = {'self.countPos()': 'p', 'self.countNeg()': 'n', 'self.countNeut()': 'z', 'self.len': 'N',
          'len(self.seq)': 'N', 'pH is not None': 'false'}


def _members(test, var='res'):
    """`res == 'P' or res == 'E' ...` or `res in [...]` -> list of letters"""
    if isinstance(test, ast.BoolOp) and isinstance(test.op, ast.Or):
        out = []
        for v in test.values:
            out += _members(v, var)
        return out
    need(isinstance(test, ast.Compare) and len(test.ops) == 1 and isinstance(test.left, ast.Name)
         and test.left.id == var, 'membership test shape: ' + ast.unparse(test)[:60])
    if isinstance(test.ops[0], ast.Eq):
        v = const(test.comparators[0])
        need(isinstance(v, str) and len(v) == 1, 'membership literal')
        return [v]
    need(isinstance(test.ops[0], ast.In), 'membership operator')
    return str_list(test.comparators[0])


def _recode_loop(func, acc='newseq'):
    """for res in self.seq: if <test>: acc = acc + 'A' [elif ...] else: acc = acc + 'B'
       -> list of (test node or None, letter)"""
    loops = [n for n in ast.walk(func) if isinstance(n, ast.For) and ast.unparse(n.iter) == 'self.seq'
             and isinstance(n.target, ast.Name) and n.target.id == 'res']
    out = []
    for lp in loops:
        need(len(lp.body) == 1 and isinstance(lp.body[0], ast.If), 'recode loop body')
        node, arms = lp.body[0], []
        while True:
            need(len(node.body) == 1 and isinstance(node.body[0], ast.Assign)
                 and ast.unparse(node.body[0]).startswith('%s = %s + ' % (acc, acc)), 'recode arm')
            arms.append((node.test, const(node.body[0].value.right)))
            if len(node.orelse) == 1 and isinstance(node.orelse[0], ast.If):
                node = node.orelse[0]
            else:
                need(len(node.orelse) == 1 and ast.unparse(node.orelse[0]).startswith('%s = %s + ' % (acc, acc)), 'recode else arm')
                arms.append((None, const(node.orelse[0].value.right)))
                break
        out.append(arms)
    return out


def _defn(name, params, ty, body):
    return 'Definition %s %s : %s :=\n %s.' % (name, params, ty, body)


def generate(repo):
    tree = parse_file(repo + '/' + SRC)
    out = Out('GSeq', SRC, ['From Coq Require Import List ZArith QArith Qabs String Bool Arith.',
                            'From LC Require Import Core.Residue Core.Lists.',
                            'Import ListNotations.', 'Local Open Scope string_scope.'])
    S = lambda name: find_func(tree, name, 'Sequence')
    qb = QBackend()

    # ---- composition fractions (pH-less branch)
    for fn, nm in [('Fplus', 'g_fplus'), ('Fminus', 'g_fminus'), ('FCR', 'g_fcr'), ('NCPR', 'g_ncpr')]:
        out.add(nm, lambda fn=fn, nm=nm: _defn(nm, '(p n z N : Q)', 'Q', Sym(qb, COUNTS).function(S(fn))))
    out.add('g_fer', lambda: _defn('g_fer', '(p n z N nP : Q)', 'Q',
                                   Sym(qb, dict(COUNTS, **{"self.seq.count('P')": 'nP'})).function(S('FER'))))
    out.add('g_mean_net_charge', lambda: _defn(
        'g_mean_net_charge', '(ncpr : Q)', 'Q', Sym(qb, {'self.NCPR(pH)': 'ncpr'}).function(S('mean_net_charge'))))

    # ---- sigma, deltaForm, delta, kappa
    def sigma():
        at = dict(COUNTS, **{'self.NCPR()': '(g_ncpr p n z N)', 'self.FCR()': '(g_fcr p n z N)'})
        return _defn('g_sigma', '(p n z N : Q)', 'Q', Sym(qb, at).function(S('sigma')))
    out.add('g_sigma', sigma)

    def delta_form():
        f = S('deltaForm')
        body = strip_doc(f.body)
        loops = [s for s in body if isinstance(s, ast.For)]
        need(len(loops) == 1, 'deltaForm: one for loop expected')
        lp = loops[0]
        need(ast.unparse(lp.iter) == 'range(0, nblobs)' and isinstance(lp.target, ast.Name), 'deltaForm loop range')
        pre = [s for s in body if s is not lp and not isinstance(s, ast.Return)]
        need(all(isinstance(s, ast.Assign) for s in pre), 'deltaForm prologue')
        pre_src = {s.targets[0].id: ast.unparse(s.value) for s in pre}
        need(pre_src.get('sigma') == 'self.sigma()' and pre_src.get('ans') == '0', 'deltaForm prologue values')
        nbl = Sym(qb, {'self.len': 'N', 'bloblen': 'w'}).expr(
            [s for s in pre if s.targets[0].id == 'nblobs'][0].value, {})
        ret = [s for s in body if isinstance(s, ast.Return)]
        need(len(ret) == 1 and ast.unparse(ret[0].value) == 'ans', 'deltaForm returns ans')
        # loop body: blob slice, counts, then arithmetic
        stm = list(lp.body)
        need(isinstance(stm[0], ast.Assign) and ast.unparse(stm[0]) ==
             'blob = self.chargePattern[i:i + bloblen]', 'deltaForm blob slice: ' + ast.unparse(stm[0]))
        counts = {}
        rest = []
        for s in stm[1:]:
            u = ast.unparse(s)
            if u in ('bpos = np.where(blob > 0)[0].size', 'bpos = len(np.where(blob > 0)[0])'):
                counts['bpos'] = 'bpos'
            elif u in ('bneg = np.where(blob < 0)[0].size', 'bneg = len(np.where(blob < 0)[0])'):
                counts['bneg'] = 'bneg'
            else:
                rest.append(s)
        need(set(counts) == {'bpos', 'bneg'}, 'deltaForm blob counts')
        env = {'bpos': 'bpos', 'bneg': 'bneg', 'bloblen': 'w', 'sigma': 'sigma', 'nblobs': 'nblobs', 'ans': 'ans'}
        step = Sym(qb, {}).block_result(rest, env, 'ans')
        return (_defn('g_nblobs', '(N w : Q)', 'Q', nbl) + '\n\n' +
                _defn('g_delta_step', '(ans sigma bpos bneg w nblobs : Q)', 'Q', step))
    out.add('g_deltaForm', delta_form)

    def delta():
        f = S('delta')
        calls = {}
        for n in ast.walk(f):
            if isinstance(n, ast.Call) and ast.unparse(n.func) == 'self.deltaForm':
                k = const(n.args[0])
                need(isinstance(k, int) and k > 0, 'blob size')
                calls[ast.unparse(n)] = '(df %d%%nat)' % k
        need(len(calls) >= 1, 'delta: no deltaForm calls')
        return (_defn('g_delta', '(df : nat -> Q)', 'Q', Sym(qb, calls).function(f)) + '\n\n' +
                'Definition g_blob_sizes : list nat := %s.' % coq_list(
                    sorted('%d%%nat' % const(ast.parse(k).body[0].value.args[0]) for k in calls)))
    out.add('g_delta', delta)

    out.add('g_kappa', lambda: _defn('g_kappa', '(dl dm : Q)', 'Q', Sym(
        qb, {'self.deltaMax()': 'dm', 'self.delta()': 'dl'}).function(S('kappa'))))

    # ---- the delta-max candidate search
    out.add('g_cands', lambda: 'Definition g_cands (p n z : nat) : list (list Z) :=\n (%s)%%nat.' % translate_deltamax(S('deltaMax')))

    # ---- charge pattern construction in __init__
    def init_pattern():
        f = S('__init__')
        found = None
        for n in ast.walk(f):
            if isinstance(n, ast.For) and len(n.body) == 1 and isinstance(n.body[0], ast.If):
                found = n.body[0]
        need(found is not None, '__init__: pattern loop not found')
        arms, node = [], found
        while True:
            t = ast.unparse(node.test)
            m = {'lkupTab.lookUpCharge(self.seq[i]) > 0': 'gt0', 'lkupTab.lookUpCharge(self.seq[i]) < 0': 'lt0'}
            need(t in m, '__init__: pattern test ' + t)
            need(len(node.body) == 1 and ast.unparse(node.body[0]).startswith('chargePattern = np.append(chargePattern, '),
                 '__init__: pattern arm')
            arms.append('(%s, %s)' % (coq_str(m[t]), coq_z(const(node.body[0].value.args[1]))))
            if len(node.orelse) == 1 and isinstance(node.orelse[0], ast.If):
                node = node.orelse[0]
            else:
                need(len(node.orelse) == 1 and ast.unparse(node.orelse[0]).startswith(
                    'chargePattern = np.append(chargePattern, '), '__init__: else arm')
                arms.append('("else", %s)' % coq_z(const(node.orelse[0].value.args[1])))
                break
        return 'Definition init_pattern : list (string * Z) := %s%%Z.' % coq_list(arms)
    out.add('init_pattern', init_pattern)

    # ---- composition getters: lists, constants and which table each one reads
    def disorder():
        f = S('fraction_disorder_promoting')
        body = strip_doc(f.body)
        D = None
        for st in body:
            if isinstance(st, ast.Assign) and ast.unparse(st.targets[0]) == 'D':
                D = str_list(st.value)
        need(D is not None, 'D list')
        src = ast.unparse(f)
        need('for i in self.seq:\n        if i in D:\n            D_count += 1' in src, 'disorder counting loop')
        need(ast.unparse(body[-1]) == 'return float(D_count) / len(self.seq)', 'disorder return')
        return 'Definition g_disorder : list aa := %s.' % coq_list([coq_aa1(c) for c in D])
    out.add('g_disorder', disorder)

    def molw():
        f = S('molecular_weight')
        body = strip_doc(f.body)
        src = [ast.unparse(x) for x in body]
        need(src[0] == 'MWTable = aminoacids.get_molecular_weight_Da()' and src[1] == 'total = 0.0', 'molecular_weight prologue')
        need(src[2].split() == 'for r in self.seq:     total = total + MWTable[r]'.split(), 'molecular_weight loop')
        need(src[-1] == 'return total', 'molecular_weight return')
        corr = Sym(qb, {'len(self.seq)': 'N'}).block_result(body[3:-1], {'total': 'total'}, 'total')
        return _defn('g_mw_correct', '(total N : Q)', 'Q', corr)
    out.add('g_mw', molw)

    def sources():
        want = ['meanHydropathy', 'uverskyHydropathy', 'meanWWHydropathy', 'FPPII_chain', 'molecular_weight',
                'linearDistOfHydropathy', 'amino_acid_fraction', 'charge_at_pH']
        rows = []
        for nm in want:
            f = S(nm)
            calls = set()
            for n in ast.walk(f):
                if isinstance(n, ast.Call):
                    u = ast.unparse(n.func)
                    if u.startswith(('data.aminoacids.', 'aminoacids.', 'lkupTab.')):
                        calls.add(u.split('.')[-1])
                if isinstance(n, ast.Attribute) and n.attr in ('ONE_TO_THREE',):
                    calls.add(n.attr)
            # normalisation: `/ self.len` or `/ float(self.len)` present?
            src = ast.unparse(f)
            rows.append('(%s, %s)' % (coq_str(nm), coq_list([coq_str(c) for c in sorted(calls)])))
        return 'Definition g_getter_sources : list (string * list string) := %s.' % coq_list(rows)
    out.add('g_getter_sources', sources)

    def mean_formulas():
        """the accumulate-and-normalise shape of the four mean getters"""
        pats = {
            'meanHydropathy': 'ans += lkupTab.lookUpHydropathy(self.seq[i]) / self.len',
            'uverskyHydropathy': 'ans += normalizedKD[translate[self.seq[idx]]] / self.len',
            'meanWWHydropathy': 'ans += ww[translate[self.seq[idx]]] / self.len',
            'FPPII_chain': 'total = total + lkupTab.lookUpPPII(self.seq[i], mode)',
        }
        for nm, pat in pats.items():
            need(pat in ast.unparse(S(nm)), '%s: accumulation statement changed' % nm)
        need('return total / float(self.len)' in ast.unparse(S('FPPII_chain')), 'FPPII_chain normalisation')
        f = S('amino_acid_fraction')
        src = ast.unparse(f)
        need('for i in self.seq:\n        AADICT[i] += 1' in src and
             'AADICT[i] = float(AADICT[i]) / float(len(self.seq))' in src, 'amino_acid_fraction shape')
        keys = None
        for st in f.body:
            if isinstance(st, ast.Assign) and ast.unparse(st.targets[0]) == 'AADICT':
                keys = dict_literal(st.value)
        need(keys is not None and all(v == 0 for _, v in keys), 'AADICT literal')
        return 'Definition g_aadict_keys : list aa := %s.\nDefinition g_mean_shapes_ok : bool := true.' % coq_list(
            [coq_aa1(k) for k, _ in keys])
    out.add('g_mean_formulas', mean_formulas)

    # ---- sliding-window profiles
    WIN = [('linearDistOfNCPR', 'ncpr', 'blobncpr'), ('linearDistOfFCR', 'fcr', 'blobfcr'),
           ('linearDistOfSigma', 'sigma', 'blobsig'), ('linearDistOfHydropathy', 'hydro', 'blobhydro'),
           ('linearDenistyOfAAs', 'density', 'blob_density')]

    def window(fn, tag, lst):
        f = S(fn)
        body = strip_doc(f.body)
        src = [ast.unparse(x) for x in body]
        guard = src[0] == 'self.__check_window_to_length(bloblen)'
        zat = {'self.len': 'N', 'bloblen': 'w', 'int(bloblen / 2)': '(Z.div w 2)'}
        pro = [x for x in body if isinstance(x, (ast.Assign, ast.If)) and
               ast.unparse(x).split(' ')[0] in ('nblobs', 'flank', 'if')][:3]
        need([ast.unparse(x).split(' ')[0] for x in pro] == ['nblobs', 'flank', 'if'], fn + ': flank prologue')
        fs = Sym(ZBackend(), zat).block_result(pro, {}, 'flank_start')
        fe = Sym(ZBackend(), zat).block_result(pro, {}, 'flank_end')
        nb = Sym(ZBackend(), zat).block_result(pro[:1], {}, 'nblobs')
        need(src[-1] == 'return np.vstack((np.arange(1, self.len + 1), [0] * flank_start + %s + [0] * flank_end))' % lst,
             fn + ': return shape: ' + src[-1][:80])
        need(any(x == '%s = [0] * nblobs' % lst for x in src), fn + ': result list initialisation')
        loops = [x for x in body if isinstance(x, ast.For)]
        lp = loops[-1]
        need(ast.unparse(lp.iter) == 'np.arange(0, nblobs)' and ast.unparse(lp.target) == 'i', fn + ': window loop range')
        stm = list(lp.body)
        srcs = {'ncpr': 'self.chargePattern', 'fcr': 'self.chargePattern', 'sigma': 'self.chargePattern',
                'hydro': 'hydrochain', 'density': 'target_seq'}[tag]
        need(ast.unparse(stm[0]) == 'blob = %s[i:i + bloblen]' % srcs, fn + ': blob slice: ' + ast.unparse(stm[0]))
        env = {'bloblen': 'w'}
        rest = []
        for x in stm[1:]:
            u = ast.unparse(x)
            if u == 'bpos = len(np.where(blob > 0)[0])':
                env['bpos'] = 'bpos'
            elif u == 'bneg = len(np.where(blob < 0)[0])':
                env['bneg'] = 'bneg'
            else:
                rest.append(x)
        last = rest[-1]
        need(isinstance(last, ast.Assign) and ast.unparse(last.targets[0]) == '%s[i]' % lst, fn + ': result store')
        fin = ast.Assign(targets=[ast.Name(id='result__', ctx=ast.Store())], value=last.value)
        if tag in ('hydro', 'density'):
            env['blobsum'] = 'blobsum'
            val = Sym(qb, {'sum(blob)': 'blobsum'}).block_result(rest[:-1] + [fin], env, 'result__')
            params = '(blobsum w : Q)'
        else:
            need('bpos' in env and 'bneg' in env, fn + ': blob counts')
            val = Sym(qb, {}).block_result(rest[:-1] + [fin], env, 'result__')
            params = '(bpos bneg w : Q)'
        extra = ''
        if tag == 'hydro':
            need('KDU = aminoacids.get_KD_uversky()' in src and
                 any(x.split() == 'for i in self.seq:     hydrochain.append(KDU[aminoacids.ONE_TO_THREE[i]])'.split() for x in src),
                 fn + ': hydrochain construction')
        if tag == 'density':
            need(any(x.split() == ('for res in self.seq:     if res in targetAAs:         target_seq.append(1.0)     '
                                   'else:         target_seq.append(0.0)').split() for x in src), fn + ': target_seq construction')
        return ('Definition g_%s_guard : bool := %s.\n' % (tag, 'true' if guard else 'false') +
                _defn('g_%s_nblobs' % tag, '(N w : Z)', 'Z', nb) + '\n' +
                _defn('g_%s_flank_start' % tag, '(N w : Z)', 'Z', fs) + '\n' +
                _defn('g_%s_flank_end' % tag, '(N w : Z)', 'Z', fe) + '\n' +
                _defn('g_%s_value' % tag, params, 'Q', val))
    for fn, tag, lst in WIN:
        out.add('g_window_' + tag, lambda fn=fn, tag=tag, lst=lst: window(fn, tag, lst))

    def window_guard():
        f = find_func(tree, '__check_window_to_length', 'Sequence')
        body = strip_doc(f.body)
        need(len(body) == 1 and isinstance(body[0], ast.If) and len(body[0].body) == 1
             and isinstance(body[0].body[0], ast.Raise) and not body[0].orelse, '__check_window_to_length shape')
        t = Sym(ZBackend(), {'len(self.seq)': 'N', 'bloblen': 'w'}).test(body[0].test, {})
        return _defn('g_window_rejected', '(N w : Z)', 'bool', t)
    out.add('g_window_rejected', window_guard)

    def compositions():
        f = S('linearCompositions')
        src = ast.unparse(f)
        grps = []
        for n in ast.walk(f):
            if isinstance(n, ast.Call) and ast.unparse(n.func) == 'grps.append':
                grps.append(coq_list([coq_aa1(c) for c in str_list(n.args[0])]))
        need(len(grps) >= 1, 'default groups')
        for frag in ['if len(grps) > 0:', 'sanitized_groups.append(self.__parse_group(group))', 'grps = sanitized_groups',
                     'tmp = self.linearDenistyOfAAs(bloblen, grps[0])', 'density = tmp[1]',
                     'for group in grps[1:]:', 'density = np.vstack((density, tmp[1]))', 'return (tmp[0], density)']:
            need(frag in src, 'linearCompositions: missing `%s`' % frag)
        return 'Definition g_default_groups : list (list aa) := %s.' % coq_list(grps)
    out.add('g_default_groups', compositions)

    # ---- phosphosites
    def phospho():
        f = S('setPhosPhoSites')
        src = ast.unparse(f)
        sty = []
        for fn in ('setPhosPhoSites', 'get_phosphosequence', 'get_STY_residues'):
            for n in ast.walk(S(fn)):
                if isinstance(n, ast.Compare) and isinstance(n.ops[0], (ast.In, ast.NotIn)) and \
                        isinstance(n.comparators[0], ast.List) and all(isinstance(e, ast.Constant) for e in n.comparators[0].elts):
                    sty.append(coq_list(sorted(coq_aa1(c) for c in str_list(n.comparators[0]))))
        need(len(sty) == 3, 'three S/T/Y lists expected, found %d' % len(sty))
        # the loop of setPhosPhoSites is tied semantically (g_minipy -> Props/Tie/minipy_phospho_tie.v), not by shape
        # clear_phosphosites / get_phosphosites / get_phosphosequence / get_STY_residues: semantic ties (minipy_phospho_tie.v)
        # kappa_at_maxPhos: semantic tie (minipy_phoskappa_tie.v)
        d = S('calculateKappaDistOfPhosphoStates')
        ds = ast.unparse(d)
        need("for phosphostatus in itertools.product('01', repeat=len(self.phosphosites)):" in ds, 'product order')
        need("if int(i) == 1:\n                newseq[self.phosphosites[indx]] = 'E'" in ds, 'substitution in distribution')
        tup = None
        for n in ast.walk(d):
            if isinstance(n, ast.Call) and ast.unparse(n.func) == 'phosphokappa.append':
                tup = [ast.unparse(e) for e in n.args[0].elts]
        need(tup is not None, 'distribution tuple')
        return ('Definition g_sty_lists : list (list aa) := %s.\n'
                'Definition g_phospho_letter : aa := Glu.\n'
                'Definition g_dist_fields : list string := %s.' % (coq_list(sty), coq_list([coq_str(x) for x in tup])))
    out.add('g_phospho', phospho)

    # ---- HTML rendering and palette
    # get_HTMLColorString is tied semantically (g_minipy -> Props/Tie/minipy_html_tie.v)

    def palette():
        # set_HTMLColorResiduePalette itself is tied semantically (g_minipy -> Props/Tie/minipy_html_tie.v)
        init = ast.unparse(S('__init__'))
        need('self.set_HTMLColorResiduePalette(aminoacids.DEFAULT_COLOR_PALETTE)' in init, '__init__ installs the default palette')
        return 'Definition g_init_installs_default_palette : bool := true.'
    out.add('g_palette', palette)

    # ---- permutation moves (statement fingerprints, compared modulo whitespace)
    def moves():
        def W(x):
            return ' '.join(ast.unparse(x).split())

        def has(fn, *frags):
            src = W(S(fn))
            for fr in frags:
                need(' '.join(fr.split()) in src, '%s: missing `%s`' % (fn, fr[:50]))
        # swapRes, swapRandChargeRes and full_shuffle are tied semantically (g_minipy -> Props/Tie/minipy_moves_tie.v)
        has('permute_block_swap', 'max_block_size = floor(self.len / 2)', 'min_block_size = 2',
            'block_size = rand.randint(min_block_size, max_block_size)', 'possible_start_idxs = list(range(self.len - (block_size - 1) * 2))',
            'for i in sorted(rand.sample(possible_start_idxs, 2)): i += offset blocks_to_swap.append(seq_idxs[i:i + block_size]) offset += block_size - 1',
            'newseq[min(blocks_to_swap[0]):max(blocks_to_swap[0])] = old_seq_list[min(blocks_to_swap[1]):max(blocks_to_swap[1])]',
            'newseq[min(blocks_to_swap[1]):max(blocks_to_swap[1])] = old_seq_list[min(blocks_to_swap[0]):max(blocks_to_swap[0])]',
            "outseq = Sequence(''.join(newseq), self.dmax)")
        has('permute_cluster_charges', 'cluster_size = rand.randint(2, n_charge)',
            'cluster_center_idx = rand.randint(floor(cluster_size / 2), len(self.seq) - ceil(cluster_size / 2))',
            'cluster_idxs = list(range(cluster_center_idx - floor(cluster_size / 2), cluster_center_idx + ceil(cluster_size / 2)))',
            'swap_idxs = [idx for idx, res in enumerate(self.seq) if res in charge and idx not in cluster_idxs]',
            'swap_idxs = rand.sample(swap_idxs, cluster_size)',
            'if idx in swap_idxs: newseq += cluster_res.pop(0) elif idx in cluster_idxs: newseq += swap_res.pop(0) else: newseq += res',
            'outseq = Sequence(newseq, self.dmax)')
        sp = parse_file(repo + '/localcider/sequenceParameters.py')
        need('return SequenceParameters(SeqObj=self.SeqObj.full_shuffle(frozen))' in W(find_func(sp, 'get_shuffled_sequence', 'SequenceParameters')),
             'get_shuffled_sequence')
        pm = parse_file(repo + '/localcider/sequencePermutants.py')
        need('SO = self.SeqObj.full_shuffle([])' in W(find_func(pm, 'get_permutant', 'SequencePermutants')), 'get_permutant')
        return 'Definition g_moves_shape_ok : bool := true.'
    out.add('g_moves', moves)

    # ---- pH-dependent charge and the isoelectric point
    def titration():
        f = S('charge_at_pH')
        src = ' '.join(ast.unparse(f).split())
        pos = neg = None
        for n in ast.walk(f):
            if isinstance(n, ast.If) and isinstance(n.test, ast.Compare) and ast.unparse(n.test.left) == 'res' \
                    and isinstance(n.test.ops[0], ast.In):
                body = ' '.join(ast.unparse(n.body[0]).split())
                if body == 'total = total + 1 / (1 + np.power(10, pH - pKa_lookup[res]))':
                    pos = str_list(n.test.comparators[0])
                elif body == 'total = total + negative_numerator / (1 + np.power(10, pKa_lookup[res] - pH))':
                    neg = str_list(n.test.comparators[0])
                need(' '.join(ast.unparse(n.body[1]).split()) == 'countable_residues = countable_residues + 1', 'countable increment')
        need(pos is not None and neg is not None, 'titration terms')
        for frag in ["if mode == 'TOTAL': negative_numerator = 1.0 else: negative_numerator = -1.0", 'pKa_lookup = data.aminoacids.get_pKa()',
                     'total = 0.0', 'for res in self.seq:',
                     'if normalize: if countable_residues == 0: total = 0 else: total = float(total) / countable_residues', 'return total']:
            need(' '.join(frag.split()) in src, 'charge_at_pH: missing `%s`' % frag[:40])
        for fn, frag in (('FCR', "return self.charge_at_pH(pH, mode='TOTAL') / (self.len + 0.0)"),
                         ('FER', "return (self.charge_at_pH(pH, mode='TOTAL') + self.seq.count('P')) / (self.len + 0.0)"),
                         ('NCPR', 'return self.charge_at_pH(pH) / (self.len + 0.0)'), ('mean_net_charge', 'return abs(self.NCPR(pH))')):
            need(frag in ' '.join(ast.unparse(S(fn)).split()), '%s: pH branch' % fn)
        g = S('isoelectric_point')
        gs = ' '.join(ast.unparse(g).split())
        consts = {}
        for st in strip_doc(g.body):
            if isinstance(st, ast.Assign) and isinstance(st.value, ast.Constant):
                consts[ast.unparse(st.targets[0])] = st.value.value
        # the loop itself is tied semantically (g_minipy -> Props/Tie/minipy_pi_tie.v), not by shape; the constants are kept
        need(set(consts) >= {'min_pH', 'max_pH', 'threshold', 'breakcount', 'errorcount'}, 'isoelectric_point constants')
        return ('Definition g_titr_positive : list aa := %s.\nDefinition g_titr_negative : list aa := %s.\n'
                'Definition g_pi_constants : list (string * Q) := %s.' % (
                    coq_list([coq_aa1(c) for c in pos]), coq_list([coq_aa1(c) for c in neg]),
                    coq_list(['(%s, %s)' % (coq_str(k), coq_q(consts[k])) for k in ('min_pH', 'max_pH', 'threshold', 'breakcount', 'errorcount')])))
    out.add('g_titration', titration)

    # ---- Omega, Omega_seq, kappa_X, __parse_group
    # Omega / Omega_seq / kappa_X / __parse_group are tied semantically (g_minipy -> Props/Tie/minipy_kappax_tie.v)

    # ---- phasePlotRegion cascade, over Q and over binary64
    def region(be, name):
        at = {'self.FCR()': 'fcr', 'self.NCPR()': 'ncpr', 'self.Fplus()': 'fplus', 'self.Fminus()': 'fminus'}
        zc = (lambda x: x)
        s = Sym(be, at, on_raise=lambda k: '(-%d)%%Z' % k, on_return=None)
        # returns are small integer constants: render them as Z
        orig_expr = s.expr

        def block_ret(e):
            return e
        body = strip_doc(list(S('phasePlotRegion').body))
        # translate with returns mapped to Z literals
        class RSym(Sym):
            def block(self, stmts, env, depth=0):
                if stmts and isinstance(stmts[0], ast.Return):
                    v = const(stmts[0].value)
                    need(isinstance(v, int), 'region return is not an int literal')
                    return '%s%%Z' % coq_z(v)
                return Sym.block(self, stmts, env, depth)
        rs = RSym(be, at, on_raise=lambda k: '(-%d)%%Z' % k)
        return _defn(name, '(fcr ncpr fplus fminus : %s)' % be.ty, 'Z', rs.block(body, {}))
    out.add('g_regionQ', lambda: region(qb, 'g_regionQ'))
    out.add('g_regionF', lambda: 'From Coq Require Import PrimFloat.\n' + region(FloatBackend(), 'g_regionF'))

    def annotation():
        f = S('phasePlotAnnotation')
        chain = [s for s in strip_doc(f.body) if isinstance(s, ast.If)]
        need(len(chain) == 1, 'annotation chain')
        node, arms = chain[0], []
        while True:
            t = node.test
            need(isinstance(t, ast.Compare) and ast.unparse(t.left) == 'region' and isinstance(t.ops[0], ast.Eq), 'annotation test')
            need(len(node.body) == 1 and isinstance(node.body[0], ast.Return), 'annotation arm')
            arms.append('(%s, %s)' % (coq_z(const(t.comparators[0])), coq_str(const(node.body[0].value))))
            if len(node.orelse) == 1 and isinstance(node.orelse[0], ast.If):
                node = node.orelse[0]
            else:
                break
        return 'Definition region_annotation : list (Z * string) := %s%%Z.' % coq_list(arms)
    out.add('region_annotation', annotation)
    return out
