"""G2/G3 — backend/sequence.py: the numeric formulas (FCR, NCPR, sigma, the deltaForm
loop body, delta, kappa, the phasePlotRegion cascade) translated by pyexpr, plus the
literal lists/constants the models depend on."""
import ast
from .common import *
from .pyexpr import Sym, QBackend, FloatBackend
from .strsym import translate_deltamax

SRC = 'localcider/backend/sequence.py'
OUTPUTS = ['GSeq']

COUNTS = {'self.countPos()': 'p', 'self.countNeg()': 'n', 'self.countNeut()': 'z', 'self.len': 'N',
          'len(self.seq)': 'N', 'pH is not None': 'false'}


def _defn(name, params, ty, body):
    return 'Definition %s %s : %s :=\n %s.' % (name, params, ty, body)


def generate(repo):
    tree = parse_file(repo + '/' + SRC)
    out = Out('GSeq', SRC, ['From Coq Require Import List ZArith QArith Qabs String Bool Arith.',
                            'From LC Require Import Core.Residue Core.Lists.',
                            'Import ListNotations.', 'Local Open Scope string_scope.'])
    S = lambda name: find_func(tree, name, 'Sequence')
    qb = QBackend()

    # ---- composition fractions (pH-less branch)
    for fn, nm in [('Fplus', 'g_fplus'), ('Fminus', 'g_fminus'), ('FCR', 'g_fcr'), ('NCPR', 'g_ncpr')]:
        out.add(nm, lambda fn=fn, nm=nm: _defn(nm, '(p n z N : Q)', 'Q', Sym(qb, COUNTS).function(S(fn))))
    out.add('g_fer', lambda: _defn('g_fer', '(p n z N nP : Q)', 'Q',
                                   Sym(qb, dict(COUNTS, **{"self.seq.count('P')": 'nP'})).function(S('FER'))))
    out.add('g_mean_net_charge', lambda: _defn(
        'g_mean_net_charge', '(ncpr : Q)', 'Q', Sym(qb, {'self.NCPR(pH)': 'ncpr'}).function(S('mean_net_charge'))))

    # ---- sigma, deltaForm, delta, kappa
    def sigma():
        at = dict(COUNTS, **{'self.NCPR()': '(g_ncpr p n z N)', 'self.FCR()': '(g_fcr p n z N)'})
        return _defn('g_sigma', '(p n z N : Q)', 'Q', Sym(qb, at).function(S('sigma')))
    out.add('g_sigma', sigma)

    def delta_form():
        f = S('deltaForm')
        body = strip_doc(f.body)
        loops = [s for s in body if isinstance(s, ast.For)]
        need(len(loops) == 1, 'deltaForm: one for loop expected')
        lp = loops[0]
        need(ast.unparse(lp.iter) == 'range(0, nblobs)' and isinstance(lp.target, ast.Name), 'deltaForm loop range')
        pre = [s for s in body if s is not lp and not isinstance(s, ast.Return)]
        need(all(isinstance(s, ast.Assign) for s in pre), 'deltaForm prologue')
        pre_src = {s.targets[0].id: ast.unparse(s.value) for s in pre}
        need(pre_src.get('sigma') == 'self.sigma()' and pre_src.get('ans') == '0', 'deltaForm prologue values')
        nbl = Sym(qb, {'self.len': 'N', 'bloblen': 'w'}).expr(
            [s for s in pre if s.targets[0].id == 'nblobs'][0].value, {})
        ret = [s for s in body if isinstance(s, ast.Return)]
        need(len(ret) == 1 and ast.unparse(ret[0].value) == 'ans', 'deltaForm returns ans')
        # loop body: blob slice, counts, then arithmetic
        stm = list(lp.body)
        need(isinstance(stm[0], ast.Assign) and ast.unparse(stm[0]) ==
             'blob = self.chargePattern[i:i + bloblen]', 'deltaForm blob slice: ' + ast.unparse(stm[0]))
        counts = {}
        rest = []
        for s in stm[1:]:
            u = ast.unparse(s)
            if u in ('bpos = np.where(blob > 0)[0].size', 'bpos = len(np.where(blob > 0)[0])'):
                counts['bpos'] = 'bpos'
            elif u in ('bneg = np.where(blob < 0)[0].size', 'bneg = len(np.where(blob < 0)[0])'):
                counts['bneg'] = 'bneg'
            else:
                rest.append(s)
        need(set(counts) == {'bpos', 'bneg'}, 'deltaForm blob counts')
        env = {'bpos': 'bpos', 'bneg': 'bneg', 'bloblen': 'w', 'sigma': 'sigma', 'nblobs': 'nblobs', 'ans': 'ans'}
        step = Sym(qb, {}).block_result(rest, env, 'ans')
        return (_defn('g_nblobs', '(N w : Q)', 'Q', nbl) + '\n\n' +
                _defn('g_delta_step', '(ans sigma bpos bneg w nblobs : Q)', 'Q', step))
    out.add('g_deltaForm', delta_form)

    def delta():
        f = S('delta')
        calls = {}
        for n in ast.walk(f):
            if isinstance(n, ast.Call) and ast.unparse(n.func) == 'self.deltaForm':
                k = const(n.args[0])
                need(isinstance(k, int) and k > 0, 'blob size')
                calls[ast.unparse(n)] = '(df %d%%nat)' % k
        need(len(calls) >= 1, 'delta: no deltaForm calls')
        return (_defn('g_delta', '(df : nat -> Q)', 'Q', Sym(qb, calls).function(f)) + '\n\n' +
                'Definition g_blob_sizes : list nat := %s.' % coq_list(
                    sorted('%d%%nat' % const(ast.parse(k).body[0].value.args[0]) for k in calls)))
    out.add('g_delta', delta)

    out.add('g_kappa', lambda: _defn('g_kappa', '(dl dm : Q)', 'Q', Sym(
        qb, {'self.deltaMax()': 'dm', 'self.delta()': 'dl'}).function(S('kappa'))))

    # ---- the delta-max candidate search
    out.add('g_cands', lambda: 'Definition g_cands (p n z : nat) : list (list Z) :=\n (%s)%%nat.' % translate_deltamax(S('deltaMax')))

    # ---- charge pattern construction in __init__
    def init_pattern():
        f = S('__init__')
        found = None
        for n in ast.walk(f):
            if isinstance(n, ast.For) and len(n.body) == 1 and isinstance(n.body[0], ast.If):
                found = n.body[0]
        need(found is not None, '__init__: pattern loop not found')
        arms, node = [], found
        while True:
            t = ast.unparse(node.test)
            m = {'lkupTab.lookUpCharge(self.seq[i]) > 0': 'gt0', 'lkupTab.lookUpCharge(self.seq[i]) < 0': 'lt0'}
            need(t in m, '__init__: pattern test ' + t)
            need(len(node.body) == 1 and ast.unparse(node.body[0]).startswith('chargePattern = np.append(chargePattern, '),
                 '__init__: pattern arm')
            arms.append('(%s, %s)' % (coq_str(m[t]), coq_z(const(node.body[0].value.args[1]))))
            if len(node.orelse) == 1 and isinstance(node.orelse[0], ast.If):
                node = node.orelse[0]
            else:
                need(len(node.orelse) == 1 and ast.unparse(node.orelse[0]).startswith(
                    'chargePattern = np.append(chargePattern, '), '__init__: else arm')
                arms.append('("else", %s)' % coq_z(const(node.orelse[0].value.args[1])))
                break
        return 'Definition init_pattern : list (string * Z) := %s%%Z.' % coq_list(arms)
    out.add('init_pattern', init_pattern)

    # ---- phasePlotRegion cascade, over Q and over binary64
    def region(be, name):
        at = {'self.FCR()': 'fcr', 'self.NCPR()': 'ncpr', 'self.Fplus()': 'fplus', 'self.Fminus()': 'fminus'}
        zc = (lambda x: x)
        s = Sym(be, at, on_raise=lambda k: '(-%d)%%Z' % k, on_return=None)
        # returns are small integer constants: render them as Z
        orig_expr = s.expr

        def block_ret(e):
            return e
        body = strip_doc(list(S('phasePlotRegion').body))
        # translate with returns mapped to Z literals
        class RSym(Sym):
            def block(self, stmts, env, depth=0):
                if stmts and isinstance(stmts[0], ast.Return):
                    v = const(stmts[0].value)
                    need(isinstance(v, int), 'region return is not an int literal')
                    return '%s%%Z' % coq_z(v)
                return Sym.block(self, stmts, env, depth)
        rs = RSym(be, at, on_raise=lambda k: '(-%d)%%Z' % k)
        return _defn(name, '(fcr ncpr fplus fminus : %s)' % be.ty, 'Z', rs.block(body, {}))
    out.add('g_regionQ', lambda: region(qb, 'g_regionQ'))
    out.add('g_regionF', lambda: 'From Coq Require Import PrimFloat.\n' + region(FloatBackend(), 'g_regionF'))

    def annotation():
        f = S('phasePlotAnnotation')
        chain = [s for s in strip_doc(f.body) if isinstance(s, ast.If)]
        need(len(chain) == 1, 'annotation chain')
        node, arms = chain[0], []
        while True:
            t = node.test
            need(isinstance(t, ast.Compare) and ast.unparse(t.left) == 'region' and isinstance(t.ops[0], ast.Eq), 'annotation test')
            need(len(node.body) == 1 and isinstance(node.body[0], ast.Return), 'annotation arm')
            arms.append('(%s, %s)' % (coq_z(const(t.comparators[0])), coq_str(const(node.body[0].value))))
            if len(node.orelse) == 1 and isinstance(node.orelse[0], ast.If):
                node = node.orelse[0]
            else:
                break
        return 'Definition region_annotation : list (Z * string) := %s%%Z.' % coq_list(arms)
    out.add('region_annotation', annotation)
    return out
