"""G7 — per-method write sets of Sequence and SequenceParameters (static, syntactic):
attributes of `self` assigned or mutated in place, mutable default arguments that the body
mutates, `global` statements and reflective writes (setattr / __dict__ / globals())."""
import ast
from .common import *

OUTPUTS = ['GEffects']
MUT = {'append', 'extend', 'insert', 'pop', 'remove', 'clear', 'update', 'add', 'discard', 'sort', 'reverse', 'setdefault', 'popitem'}


def _self_attr(node):
    """self.X or self.X[...] / self.X.y -> 'X' (outermost attribute of self)"""
    while isinstance(node, (ast.Subscript, ast.Attribute)):
        if isinstance(node, ast.Attribute) and isinstance(node.value, ast.Name) and node.value.id == 'self':
            return node.attr
        node = node.value
    return None


def analyse(cls):
    writes, defaults, reflective = [], [], []
    for f in cls.body:
        if not isinstance(f, ast.FunctionDef):
            continue
        ws = set()
        for n in ast.walk(f):
            tg = []
            if isinstance(n, ast.Assign):
                tg = n.targets
            elif isinstance(n, (ast.AugAssign, ast.AnnAssign)):
                tg = [n.target]
            elif isinstance(n, ast.Delete):
                tg = n.targets
            for t in tg:
                for e in (t.elts if isinstance(t, (ast.Tuple, ast.List)) else [t]):
                    a = _self_attr(e)
                    if a:
                        ws.add(a)
            if isinstance(n, ast.Call) and isinstance(n.func, ast.Attribute) and n.func.attr in MUT:
                a = _self_attr(n.func.value)
                if a:
                    ws.add(a + '.' + n.func.attr)
            if isinstance(n, ast.Call) and isinstance(n.func, ast.Name) and n.func.id in ('setattr', 'delattr', 'globals', 'vars', 'exec', 'eval'):
                reflective.append('%s.%s:%s' % (cls.name, f.name, n.func.id))
            if isinstance(n, ast.Attribute) and n.attr == '__dict__':
                reflective.append('%s.%s:__dict__' % (cls.name, f.name))
            if isinstance(n, (ast.Global, ast.Nonlocal)):
                reflective.append('%s.%s:global' % (cls.name, f.name))
        if ws:
            writes.append(('%s.%s' % (cls.name, f.name), sorted(ws)))
        # mutable defaults
        args = f.args.args
        dfl = f.args.defaults
        for a, d in zip(args[len(args) - len(dfl):], dfl):
            mutable = isinstance(d, (ast.List, ast.Dict, ast.Set)) or (isinstance(d, ast.Call) and getattr(d.func, 'id', '') in ('set', 'list', 'dict'))
            if not mutable:
                continue
            mutated = False
            for n in ast.walk(f):
                if isinstance(n, ast.Call) and isinstance(n.func, ast.Attribute) and n.func.attr in MUT \
                        and isinstance(n.func.value, ast.Name) and n.func.value.id == a.arg:
                    mutated = True
                if isinstance(n, (ast.Assign, ast.AugAssign)):
                    for t in (n.targets if isinstance(n, ast.Assign) else [n.target]):
                        if isinstance(t, ast.Subscript) and isinstance(t.value, ast.Name) and t.value.id == a.arg:
                            mutated = True
            if mutated:
                defaults.append('%s.%s(%s)' % (cls.name, f.name, a.arg))
    return writes, defaults, reflective


def generate(repo):
    out = Out('GEffects', 'localcider/backend/sequence.py, localcider/sequenceParameters.py',
              ['From Coq Require Import List String.', 'Import ListNotations.', 'Local Open Scope string_scope.'])

    def effects():
        rows, dfl, refl = [], [], []
        for path, cname in (('localcider/backend/sequence.py', 'Sequence'), ('localcider/sequenceParameters.py', 'SequenceParameters'),
                            ('localcider/backend/sequenceComplexity.py', 'SequenceComplexity')):
            tree = parse_file(repo + '/' + path)
            cs = [n for n in tree.body if isinstance(n, ast.ClassDef) and n.name == cname]
            need(len(cs) == 1, 'class %s' % cname)
            w, d, r = analyse(cs[0])
            rows += w
            dfl += d
            refl += r
            # module-level state written after import (other than definitions/imports)
            for n in tree.body:
                if isinstance(n, (ast.Assign, ast.AugAssign)):
                    t = n.targets[0] if isinstance(n, ast.Assign) else n.target
                    rows.append(('module:%s' % path.split('/')[-1], [ast.unparse(t)]))
        return ('Definition g_writes : list (string * list string) := %s.\n'
                'Definition g_mutated_defaults : list string := %s.\n'
                'Definition g_reflective : list string := %s.' % (
                    coq_list(['(%s, %s)' % (coq_str(m), coq_list([coq_str(a) for a in ws])) for m, ws in rows]),
                    coq_list([coq_str(x) for x in dfl]), coq_list([coq_str(x) for x in refl])))
    out.add('effects', effects)
    return out
