"""gen_all — regenerate coq/Gen/*.v from the working tree (write-if-changed)."""
import importlib
import os

MODULES = ['g_complexity', 'g_aminoacids', 'g_sequence', 'g_params', 'g_effects', 'g_plotting', 'g_wl', 'g_minipy']


def run(repo, outdir):
    os.makedirs(outdir, exist_ok=True)
    failed = {}
    for m in MODULES:
        mod = importlib.import_module('py2coq.' + m)
        try:
            outs = mod.generate(repo)
        except Exception as e:                      # whole extractor failed: emit an empty file
            outs = []
            failed[m] = ['extractor crashed: %r' % (e,)]
            for nm in getattr(mod, 'OUTPUTS', []):   # never leave a stale file behind
                with open(os.path.join(outdir, nm + '.v'), 'w') as fh:
                    fh.write('(* GENERATION FAILED: %s *)\n' % repr(e).replace('*)', '* )'))
        if not isinstance(outs, (list, tuple)):
            outs = [outs]
        for out in outs:
            path = os.path.join(outdir, out.name + '.v')
            txt = out.text()
            old = open(path).read() if os.path.exists(path) else None
            if old != txt:
                with open(path, 'w') as fh:
                    fh.write(txt)
            if out.failed:
                failed[out.name] = ['%s: %s' % f for f in out.failed]
    return failed


if __name__ == '__main__':
    import sys
    print(run(sys.argv[1] if len(sys.argv) > 1 else '/repo', sys.argv[2] if len(sys.argv) > 2 else '/verif/coq/Gen'))
