"""g_minipy — translate the source of selected localCIDER functions into terms of the deep embedding Core/MiniPy.v.

Fail-closed: any statement or expression outside the fragment makes the whole function UNTRANSLATABLE (the Definition is
not emitted, so the tie lemma that names it stops compiling).  Message-only calls (status_message / warning_message /
print) are dropped; `raise X(...)` becomes SRaise whatever the message; float(e) is e; module constants are resolved
through CONSTS (evaluated from the data modules' literal dictionaries)."""
import ast
import os

from .common import Untranslatable, Out, parse_file, find_func

OUTPUTS = ['GMiniPy']

MESSAGE_CALLS = {'status_message', 'warning_message', 'print', 'running_dotdotdot'}
LOG_CALLS = {'self.writeLog'}          # log-file output: not part of the embedding (the harness cross-checks the files)


def cstring(s):
    if any(ord(c) < 32 or ord(c) > 126 for c in s):
        raise Untranslatable('non-printable character in a string constant %r' % s)
    return '"%s"' % s.replace('"', '""')


def vstr(s):
    return '(VStr (list_ascii_of_string %s))' % cstring(s)


def const_value(v):
    if v is None:
        return 'VNone'
    if isinstance(v, bool):
        return '(VBool %s)' % ('true' if v else 'false')
    if isinstance(v, int):
        return '(VInt (%d))' % v
    if isinstance(v, float):
        from fractions import Fraction
        q = Fraction(repr(v))             # the decimal the programmer wrote (0.02 is 1/50), as in the models
        return '(VQ (%d # %d))' % (q.numerator, q.denominator)
    if isinstance(v, str):
        return vstr(v)
    if isinstance(v, (list, tuple)):
        return '(VList [%s])' % '; '.join(const_value(x) for x in v)
    if isinstance(v, dict):
        return '(VDict [%s])' % '; '.join('(%s, %s)' % (const_value(k), const_value(x)) for k, x in v.items())
    raise Untranslatable('constant of type %s' % type(v).__name__)


def dotted(node):
    if isinstance(node, ast.Name):
        return node.id
    if isinstance(node, ast.Attribute):
        b = dotted(node.value)
        return None if b is None else b + '.' + node.attr
    return None


class Tr:
    def __init__(self, consts):
        self.consts = consts          # dotted name -> python value
        self.assigned = []            # names assigned in the body (pre-declared in the initial environment by the tie)
        self.rngs = set()             # local names bound to rng.Random() objects
        self.site = 0                 # call-site counter of random draws (source order): the oracle is indexed by it
        self.pre = None               # statements hoisted out of the expression being translated (x.pop())
        self.tmp = 0
        self.qdiv = False             # translate every a / b as the primitive "qdiv" (exact rational division: float arithmetic read as exact)
        self.fdiv = False             # translate float(a) / b as the primitive "fdiv" (the tie says which rational) instead of an untracked quotient

    def fresh(self):
        self.tmp += 1
        return '$%d' % self.tmp

    def draw(self, kind, args):
        self.site += 1
        return '(ECall %s [%s])' % (cstring('rand.%s#%d' % (kind, self.site)), '; '.join(args))

    # ---- expressions ----
    def expr(self, e):
        if isinstance(e, ast.Constant):
            return '(EConst %s)' % const_value(e.value)
        if isinstance(e, ast.Attribute) and e.attr == 'size' and isinstance(e.value, ast.Subscript) and isinstance(e.value.value, ast.Call) \
                and dotted(e.value.value.func) in ('np.where', 'numpy.where'):
            return '(ELen %s)' % self.expr(e.value)          # np.where(...)[0].size: how many indices
        if isinstance(e, ast.Attribute) and isinstance(e.value, ast.Name) and e.value.id in self.assigned and e.value.id != 'self':
            return '(ECall %s [%s])' % (cstring('.' + e.attr), self.expr(e.value))     # a field of an object held in a local variable
        d = dotted(e)
        if d is not None:
            if d in self.consts:
                return '(EConst %s)' % const_value(self.consts[d])
            return '(EVar %s)' % cstring(d)
        if isinstance(e, ast.ListComp) and len(e.generators) == 1 and len(e.generators[0].ifs) == 1 and not e.generators[0].is_async \
                and isinstance(e.generators[0].target, ast.Name):
            # [f(x) for x in xs if c(x)]: the enumerate-filter with an unused index
            g = e.generators[0]
            return '(EEnumFilter "$i" %s %s %s %s)' % (cstring(g.target.id), self.expr(g.ifs[0]), self.expr(e.elt), self.expr(g.iter))
        if isinstance(e, ast.ListComp):
            if len(e.generators) != 1 or e.generators[0].ifs or e.generators[0].is_async or not isinstance(e.generators[0].target, ast.Name):
                raise Untranslatable('comprehension other than [f(x) for x in xs]')
            g = e.generators[0]
            return '(EComp %s %s %s)' % (cstring(g.target.id), self.expr(e.elt), self.expr(g.iter))
        if isinstance(e, ast.Dict) and not e.keys:
            return '(EConst (VDict []))'
        if isinstance(e, ast.Dict):
            try:
                return '(EConst %s)' % const_value(ast.literal_eval(e))          # a dictionary literal of constants
            except ValueError:
                raise Untranslatable('dictionary literal with non-constant entries')
        if isinstance(e, ast.BinOp) and isinstance(e.op, ast.Mod) and isinstance(e.left, ast.Constant) and isinstance(e.left.value, str):
            args = e.right.elts if isinstance(e.right, ast.Tuple) else [e.right]
            t = e.left.value
            if t.count('%') != t.count('%s') or t.count('%s') != len(args):
                raise Untranslatable('format string other than %s placeholders')
            return '(EFormat (list_ascii_of_string %s) [%s])' % (cstring(t), '; '.join(self.expr(a) for a in args))
        if isinstance(e, (ast.List, ast.Tuple)):
            return '(EListLit [%s])' % '; '.join(self.expr(x) for x in e.elts)
        if isinstance(e, ast.Compare):
            if len(e.ops) != 1:
                raise Untranslatable('chained comparison')
            a, b = self.expr(e.left), self.expr(e.comparators[0])
            op = {ast.Eq: 'EEq', ast.NotEq: 'ENe', ast.Lt: 'ELt', ast.LtE: 'ELe', ast.Gt: 'EGt', ast.GtE: 'EGe',
                  ast.In: 'EIn', ast.NotIn: 'ENotIn'}.get(type(e.ops[0]))
            if isinstance(e.ops[0], (ast.Is, ast.IsNot)) and isinstance(e.comparators[0], ast.Constant) and e.comparators[0].value is None:
                op = 'EEq' if isinstance(e.ops[0], ast.Is) else 'ENe'          # x is None / x is not None
            if op is None:
                raise Untranslatable('comparison %s' % type(e.ops[0]).__name__)
            return '(%s %s %s)' % (op, a, b)
        if isinstance(e, ast.BoolOp):
            op = 'EAnd' if isinstance(e.op, ast.And) else 'EOr'
            out = self.expr(e.values[-1])
            for v in reversed(e.values[:-1]):
                out = '(%s %s %s)' % (op, self.expr(v), out)
            return out
        if isinstance(e, ast.UnaryOp) and isinstance(e.op, ast.Not):
            return '(ENot %s)' % self.expr(e.operand)
        if isinstance(e, ast.UnaryOp) and isinstance(e.op, ast.USub) and isinstance(e.operand, ast.Constant) \
                and isinstance(e.operand.value, int):
            return '(EConst (VInt (%d)))' % (-e.operand.value)
        if isinstance(e, ast.UnaryOp) and isinstance(e.op, ast.USub):
            return '(ESub (EConst (VInt (0))) %s)' % self.expr(e.operand)
        if isinstance(e, ast.BinOp) and isinstance(e.op, ast.Sub) and isinstance(e.left, ast.Call) \
                and isinstance(e.left.func, ast.Name) and e.left.func.id == 'set':
            return '(ESetDiff %s %s)' % (self.expr(e.left), self.expr(e.right))      # set(...) - b
        if isinstance(e, ast.BinOp) and isinstance(e.op, ast.Div) and isinstance(e.left, ast.Call) and isinstance(e.left.func, ast.Name) \
                and e.left.func.id == 'float' and len(e.left.args) == 1 and self.fdiv:
            return '(ECall "fdiv" [%s; %s])' % (self.expr(e.left.args[0]), self.expr(e.right))     # a float quotient: the tie says which rational
        if isinstance(e, ast.BinOp) and isinstance(e.op, ast.Div) and self.qdiv:
            return '(ECall "qdiv" [%s; %s])' % (self.expr(e.left), self.expr(e.right))
        if isinstance(e, ast.BinOp) and isinstance(e.op, ast.FloorDiv):
            return '(ECall "floordiv" [%s; %s])' % (self.expr(e.left), self.expr(e.right))       # integer floor division: a primitive of the tie
        if isinstance(e, ast.BinOp) and isinstance(e.op, ast.Pow):
            return '(ECall "pow" [%s; %s])' % (self.expr(e.left), self.expr(e.right))
        if isinstance(e, ast.BinOp) and isinstance(e.op, ast.Mod) and not (isinstance(e.left, ast.Constant) and isinstance(e.left.value, str)):
            return '(EMod %s %s)' % (self.expr(e.left), self.expr(e.right))
        if isinstance(e, ast.BinOp):
            op = {ast.Add: 'EAdd', ast.Sub: 'ESub', ast.Mult: 'EMul', ast.Div: 'EDiv'}.get(type(e.op))
            if op is None:
                raise Untranslatable('operator %s' % type(e.op).__name__)
            return '(%s %s %s)' % (op, self.expr(e.left), self.expr(e.right))
        if isinstance(e, ast.Subscript) and isinstance(e.slice, ast.Constant) and e.slice.value == 0 and isinstance(e.value, ast.Call) \
                and dotted(e.value.func) in ('np.where', 'numpy.where') and len(e.value.args) == 1 and not e.value.keywords \
                and isinstance(e.value.args[0], ast.Compare) and len(e.value.args[0].ops) == 1:
            # np.where(arr OP c)[0]: the indices of the entries that satisfy the comparison, ascending
            c = e.value.args[0]
            op = {ast.Eq: 'EEq', ast.NotEq: 'ENe', ast.Lt: 'ELt', ast.LtE: 'ELe', ast.Gt: 'EGt', ast.GtE: 'EGe'}.get(type(c.ops[0]))
            if op is None:
                raise Untranslatable('np.where condition')
            if isinstance(c.left, ast.BinOp) and isinstance(c.left.op, ast.Div) and isinstance(c.left.left, ast.Name):
                # (array / scalar) OP bound: element-wise quotient
                return '(EEnumFilter "$i" "$x" (%s (EDiv (EVar "$x") %s) %s) (EVar "$i") %s)' % (
                    op, self.expr(c.left.right), self.expr(c.comparators[0]), self.expr(c.left.left))
            if not isinstance(c.comparators[0], ast.Constant):
                raise Untranslatable('np.where condition')
            return '(EEnumFilter "$i" "$x" (%s (EVar "$x") %s) (EVar "$i") %s)' % (op, self.expr(c.comparators[0]), self.expr(c.left))
        if isinstance(e, ast.Subscript):
            idx = e.slice
            if isinstance(idx, ast.Slice):
                if idx.step is not None:
                    raise Untranslatable('slice step')
                lo = self.expr(idx.lower) if idx.lower is not None else '(EConst VNone)'
                hi = self.expr(idx.upper) if idx.upper is not None else '(EConst VNone)'
                return '(ESlice %s %s %s)' % (self.expr(e.value), lo, hi)
            return '(EIndex %s %s)' % (self.expr(e.value), self.expr(idx))
        if isinstance(e, ast.Call):
            f = e.func
            if isinstance(f, ast.Attribute) and isinstance(f.value, ast.Name) and f.value.id in self.rngs and not e.keywords \
                    and f.attr in ('sample', 'randint', 'random'):
                # a random draw: an ORACLE indexed by its call site (each site of the tied functions runs at most once per call)
                return self.draw(f.attr, [self.expr(a) for a in e.args])
            if dotted(f) in ('np.argmin', 'numpy.argmin') and len(e.args) == 1 and not e.keywords and isinstance(e.args[0], ast.Call) \
                    and isinstance(e.args[0].func, ast.Name) and e.args[0].func.id == 'abs' and len(e.args[0].args) == 1 \
                    and isinstance(e.args[0].args[0], ast.BinOp) and isinstance(e.args[0].args[0].op, ast.Sub):
                d = e.args[0].args[0]         # np.argmin(abs(a - b)): a float decision, an oracle of the tie
                return '(ECall "argmin_abs_diff" [%s; %s])' % (self.expr(d.left), self.expr(d.right))
            if dotted(f) in ('np.vstack', 'numpy.vstack') and len(e.args) == 1 and not e.keywords:
                return '(ECall "np.vstack" [%s])' % self.expr(e.args[0])
            if dotted(f) is not None and (dotted(f) + '()') in self.consts and not e.args and not e.keywords:
                return '(EConst %s)' % const_value(self.consts[dotted(f) + '()'])          # a data-module function returning a literal
            if isinstance(f, ast.Name) and f.id == 'round' and len(e.args) == 1 and not e.keywords:
                return '(ECall "round" [%s])' % self.expr(e.args[0])
            if isinstance(f, ast.Attribute) and isinstance(f.value, ast.Name) and f.value.id == 'self' and f.attr == 'getBinCenters' and not e.args and not e.keywords:
                # the method reads self.nbins_actual (and nothing else of the object): handed over explicitly
                return '(ECall "getBinCenters" [(EVar "self.nbins_actual")])'
            if isinstance(f, ast.Name) and f.id == 'sum' and len(e.args) == 1 and not e.keywords:
                return '(ECall "sum" [%s])' % self.expr(e.args[0])
            if dotted(f) in ('aminoacids.get_KD_uversky', 'data.aminoacids.get_KD_uversky') and not e.args and not e.keywords:
                return '(ECall "get_KD_uversky" [])'          # a computed table of the data module (tied by tables_tie): a primitive
            if dotted(f) == 'itertools.product' and len(e.args) == 1 and len(e.keywords) == 1 and e.keywords[0].arg == 'repeat':
                return '(ECall "itertools.product" [%s; %s])' % (self.expr(e.args[0]), self.expr(e.keywords[0].value))
            if dotted(f) in ('np.power', 'numpy.power') and len(e.args) == 2 and not e.keywords:
                return '(ECall "np.power" [%s; %s])' % (self.expr(e.args[0]), self.expr(e.args[1]))    # a float function: an oracle of the tie
            if dotted(f) == 'math.log' and len(e.args) == 2 and not e.keywords:
                return '(ECall "math.log" [%s; %s])' % (self.expr(e.args[0]), self.expr(e.args[1]))    # a float function: an oracle of the tie
            if dotted(f) in ('np.exp', 'np.log', 'np.mean') and len(e.args) == 1 and not e.keywords:
                return '(ECall %s [%s])' % (cstring(dotted(f)), self.expr(e.args[0]))
            if isinstance(f, ast.Name) and f.id == 'min' and len(e.args) == 1 and not e.keywords:
                return '(ECall "min" [%s])' % self.expr(e.args[0])
            if isinstance(f, ast.Name) and f.id == 'min' and len(e.args) == 2 and not e.keywords:
                return '(ECall "min" [(EListLit [%s; %s])])' % (self.expr(e.args[0]), self.expr(e.args[1]))
            if dotted(f) == 't.time' and not e.args and not e.keywords:
                return '(EConst VNone)'                      # wall-clock time: only ever printed
            if isinstance(f, ast.Attribute) and isinstance(f.value, ast.Name) and f.value.id in self.assigned and f.value.id not in self.rngs \
                    and not e.keywords and f.attr not in ('join', 'lower', 'isspace', 'upper', 'strip', 'count', 'append', 'pop') and e.args:
                # a method (with arguments) of an object held in a local variable: primitive ".method"(object, args)
                return '(ECall %s [%s])' % (cstring('.' + f.attr), '; '.join([self.expr(f.value)] + [self.expr(a) for a in e.args]))
            if dotted(f) is not None and dotted(f).startswith('lkupTab.') and dotted(f) != 'lkupTab.lookUpCharge' and not e.keywords:
                return '(ECall %s [%s])' % (cstring(dotted(f)), '; '.join(self.expr(a) for a in e.args))      # the residue table (tied by tables_tie): a primitive
            if dotted(f) == 'lkupTab.lookUpCharge' and len(e.args) == 1 and not e.keywords:
                return '(ECall "lookUpCharge" [%s])' % self.expr(e.args[0])      # the residue table (tied by charge_tie)
            if dotted(f) in ('np.append', 'numpy.append') and len(e.args) == 2 and not e.keywords:
                return '(EAdd %s (EListLit [%s]))' % (self.expr(e.args[0]), self.expr(e.args[1]))   # a new array, one entry longer
            if dotted(f) in ('cp.deepcopy', 'copy.deepcopy') and len(e.args) == 1 and not e.keywords:
                return self.expr(e.args[0])        # values of the embedding are immutable: a deep copy is the value
            if dotted(f) in ('np.arange', 'numpy.arange') and len(e.args) == 3 and len(e.keywords) == 1 and e.keywords[0].arg == 'dtype' \
                    and isinstance(e.keywords[0].value, ast.Name) and e.keywords[0].value.id == 'int':
                return '(ECall "arange3" [%s])' % '; '.join(self.expr(a) for a in e.args)      # np.arange(start, stop, step, dtype=int)
            if dotted(f) in ('np.arange', 'numpy.arange', 'range') and len(e.args) in (1, 2) and not e.keywords:
                lo = self.expr(e.args[0]) if len(e.args) == 2 else '(EConst (VInt (0)))'
                return '(ERange %s %s)' % (lo, self.expr(e.args[-1]))
            if isinstance(f, ast.Name) and f.id == 'sorted' and len(e.args) == 1 and not e.keywords:
                return '(ESorted %s)' % self.expr(e.args[0])
            if isinstance(f, ast.Attribute) and f.attr == 'pop' and isinstance(f.value, ast.Name) and not e.keywords \
                    and (not e.args or (len(e.args) == 1 and isinstance(e.args[0], ast.Constant) and e.args[0].value == 0)):
                # x.pop() / x.pop(0) inside an expression: hoisted in front of the statement ($t = x[-1]; x = x[:-1])
                if self.pre is None or self.pre:
                    raise Untranslatable('pop() where it cannot be hoisted (or two of them in one statement)')
                x, t = cstring(f.value.id), cstring(self.fresh())
                if e.args:
                    self.pre += ['(SAssign %s (EIndex (EVar %s) (EConst (VInt (0)))))' % (t, x),
                                 '(SAssign %s (ESlice (EVar %s) (EConst (VInt (1))) (EConst VNone)))' % (x, x)]
                else:
                    self.pre += ['(SAssign %s (EIndex (EVar %s) (EConst (VInt (-1)))))' % (t, x),
                                 '(SAssign %s (ESlice (EVar %s) (EConst VNone) (EConst (VInt (-1)))))' % (x, x)]
                return '(EVar %s)' % t
            if isinstance(f, ast.Attribute) and dotted(f.value) == 'self.SeqObj' and not e.keywords:
                # the public class forwarding to its backend object: primitive "SeqObj.<method>"(args)
                return '(ECall %s [%s])' % (cstring('SeqObj.' + f.attr), '; '.join(self.expr(a) for a in e.args))
            if isinstance(f, ast.Attribute) and dotted(f.value) == 'self.ComplexityObject' and not e.keywords:
                # the backend object forwarding to its complexity object: primitive "ComplexityObject.<method>"(args)
                return '(ECall %s [%s])' % (cstring('ComplexityObject.' + f.attr), '; '.join(self.expr(a) for a in e.args))
            if isinstance(f, ast.Name) and f.id == 'abs' and len(e.args) == 1 and not e.keywords:
                return '(ECall "abs" [%s])' % self.expr(e.args[0])
            if isinstance(f, ast.Attribute) and isinstance(f.value, ast.Name) and f.value.id == 'self':
                # a call of another method of the object: interpreted by the tie's primitive table
                name = f.attr + ''.join('|' + k.arg for k in e.keywords)
                args = [self.expr(a) for a in e.args] + [self.expr(k.value) for k in e.keywords]
                return '(ECall %s [%s])' % (cstring(name), '; '.join(args))
            if isinstance(f, ast.Attribute) and isinstance(f.value, ast.Attribute) and isinstance(f.value.value, ast.Name) and f.value.value.id == 'self' \
                    and f.value.attr not in ('SeqObj', 'ComplexityObject') \
                    and f.attr not in ('join', 'lower', 'isspace', 'upper', 'strip', 'count', 'append', 'pop', 'keys', 'add', 'size'):
                # a method of an object held in an attribute of self: primitive ".method|kw"(object, args, keyword values)
                name = '.' + f.attr + ''.join('|' + k.arg for k in e.keywords)
                args = [self.expr(f.value)] + [self.expr(a) for a in e.args] + [self.expr(k.value) for k in e.keywords]
                return '(ECall %s [%s])' % (cstring(name), '; '.join(args))
            if isinstance(f, ast.Name) and f.id[:1].isupper() and e.keywords:
                # construction of another object of the library with keyword arguments: primitive "Class|kw"(args, keyword values)
                name = f.id + ''.join('|' + k.arg for k in e.keywords)
                args = [self.expr(a) for a in e.args] + [self.expr(k.value) for k in e.keywords]
                return '(ECall %s [%s])' % (cstring(name), '; '.join(args))
            if e.keywords:
                raise Untranslatable('keyword arguments')
            if isinstance(f, ast.Name):
                if f.id == 'str' and len(e.args) == 1:
                    return '(ECall "str" [%s])' % self.expr(e.args[0])        # str(x): a primitive of the tie (the identity on strings)
                if f.id == 'len' and len(e.args) == 1:
                    return '(ELen %s)' % self.expr(e.args[0])
                if f.id == 'int' and len(e.args) == 1 and isinstance(e.args[0], ast.BinOp) and isinstance(e.args[0].op, ast.Div):
                    # int(a / b): the float quotient truncated — the primitive "int_div" (the tie says: Z.quot on integers)
                    return '(ECall "int_div" [%s; %s])' % (self.expr(e.args[0].left), self.expr(e.args[0].right))
                if f.id == 'int' and len(e.args) == 1:
                    return '(EToInt %s)' % self.expr(e.args[0])
                if f.id == 'float' and len(e.args) == 1:
                    return self.expr(e.args[0])
                if f.id == 'isinstance' and len(e.args) == 2 and isinstance(e.args[1], ast.Name) and e.args[1].id == 'int':
                    return '(EIsInt %s)' % self.expr(e.args[0])
                if f.id == 'verifyType' and len(e.args) == 2 and isinstance(e.args[1], ast.Name) and e.args[1].id == 'str':
                    return '(EIsStr %s)' % self.expr(e.args[0])
                if f.id == 'isinstance' and len(e.args) == 2 and isinstance(e.args[1], ast.Name) and e.args[1].id == 'dict':
                    return '(EIsDict %s)' % self.expr(e.args[0])
                if f.id == 'list' and len(e.args) == 1 and dotted(e.args[0]) is not None and dotted(e.args[0]) not in self.consts \
                        and not isinstance(self.consts.get(dotted(e.args[0])), dict):
                    return '(EListOf %s)' % self.expr(e.args[0])
                if f.id == 'set' and len(e.args) == 1:
                    return '(ESetOf %s)' % self.expr(e.args[0])
                if f.id == 'set' and not e.args:
                    return '(EListLit [])'                  # an empty set (sets are duplicate-free lists; x.add(e) keeps them so)
                if f.id == 'list' and len(e.args) == 1:
                    a = e.args[0]
                    if isinstance(a, ast.Call) and isinstance(a.func, ast.Attribute) and a.func.attr == 'keys' and not a.args:
                        d = dotted(a.func.value)
                        if d in self.consts and isinstance(self.consts[d], dict):
                            return '(EConst %s)' % const_value(list(self.consts[d].keys()))
                    d = dotted(a)
                    if d in self.consts and isinstance(self.consts[d], dict):
                        return '(EConst %s)' % const_value(list(self.consts[d].keys()))
                if f.id[:1].isupper():         # construction of another object of the library: interpreted by the primitive table
                    return '(ECall %s [%s])' % (cstring(f.id), '; '.join(self.expr(a) for a in e.args))
                raise Untranslatable('call of %s' % f.id)
            if dotted(f) in ('np.mod', 'numpy.mod') and len(e.args) == 2 and not e.keywords:
                return '(EMod %s %s)' % (self.expr(e.args[0]), self.expr(e.args[1]))
            if isinstance(f, ast.Attribute):
                if f.attr == 'join' and len(e.args) == 1 and isinstance(f.value, ast.Constant) and isinstance(f.value.value, str):
                    return '(EJoin (list_ascii_of_string %s) %s)' % (cstring(f.value.value), self.expr(e.args[0]))
                if f.attr == 'lower' and not e.args:
                    return '(ELower %s)' % self.expr(f.value)
                if f.attr == 'isspace' and not e.args:
                    return '(EIsSpace %s)' % self.expr(f.value)
                if f.attr == 'upper' and not e.args:
                    return '(EUpper %s)' % self.expr(f.value)
                if f.attr == 'strip' and not e.args:
                    return '(EStrip %s)' % self.expr(f.value)
                if f.attr == 'count' and len(e.args) == 1:
                    return '(ECount %s %s)' % (self.expr(f.value), self.expr(e.args[0]))
                if isinstance(f.value, ast.Name) and f.value.id in self.assigned and not e.args:
                    # a method of an object held in a local variable (built by a call above): primitive ".method"(object)
                    return '(ECall %s [%s])' % (cstring('.' + f.attr), self.expr(f.value))
                raise Untranslatable('method %s' % f.attr)
            raise Untranslatable('call')
        raise Untranslatable('expression %s' % type(e).__name__)

    # ---- statements ----
    def block(self, stmts):
        out = [self.stmt(s) for s in stmts]
        out = [s for s in out if s != 'SSkip'] or ['SSkip']
        r = out[-1]
        for s in reversed(out[:-1]):
            r = '(SSeq %s %s)' % (s, r)
        return r

    def target(self, t):
        d = dotted(t)
        if d is None:
            raise Untranslatable('assignment target %s' % type(t).__name__)
        if d not in self.assigned:
            self.assigned.append(d)
        return cstring(d)

    def stmt(self, s):
        simple = isinstance(s, (ast.Assign, ast.AugAssign, ast.Return)) or \
            (isinstance(s, ast.Expr) and isinstance(s.value, ast.Call) and isinstance(s.value.func, ast.Attribute) and s.value.func.attr == 'append')
        self.pre = [] if simple else None
        out = self.stmt1(s)
        pre, self.pre = self.pre, None
        for h in reversed(pre or []):
            out = '(SSeq %s %s)' % (h, out)
        return out

    def assign_to(self, t, rhs):
        if isinstance(t, ast.Subscript) and not isinstance(t.slice, ast.Slice):
            return '(SSetItem %s %s %s)' % (self.target(t.value), self.expr(t.slice), rhs)
        return '(SAssign %s %s)' % (self.target(t), rhs)

    def stmt1(self, s):
        if isinstance(s, ast.FunctionDef):
            # a nested helper that only prints (its body translates to nothing): its calls are dropped like message calls
            inner = Tr(self.consts)
            try:
                body = inner.block(s.body)
            except Untranslatable:
                body = None
            if body is not None and set(body.replace('(', ' ').replace(')', ' ').split()) <= {'SSkip', 'SIf', 'SSeq'} | set(t for t in body.replace('(', ' ').replace(')', ' ').split() if not t.startswith('S')) \
                    and 'SAssign' not in body and 'SReturn' not in body and 'SRaise' not in body and 'SAppend' not in body and 'SSetItem' not in body and 'SFor' not in body and 'SWhile' not in body:
                self.local_msg = getattr(self, 'local_msg', set()) | {s.name}
                return 'SSkip'
            raise Untranslatable('nested function %s does more than print' % s.name)
        if isinstance(s, ast.Expr) and isinstance(s.value, ast.Call) and isinstance(s.value.func, ast.Name) and s.value.func.id in getattr(self, 'local_msg', set()):
            return 'SSkip'
        if isinstance(s, ast.Assign) and len(s.targets) == 1 and isinstance(s.value, ast.Call) and dotted(s.value.func) == 'rng.Random' \
                and not s.value.args and isinstance(s.targets[0], ast.Name):
            self.rngs.add(s.targets[0].id)                      # rand = rng.Random(): the generator is the oracle
            return 'SSkip'
        if isinstance(s, ast.Expr) and isinstance(s.value, ast.Call) and isinstance(s.value.func, ast.Attribute) \
                and isinstance(s.value.func.value, ast.Name) and s.value.func.value.id in self.rngs:
            f = s.value.func
            if f.attr == 'seed':
                return 'SSkip'
            if f.attr == 'shuffle' and len(s.value.args) == 1 and isinstance(s.value.args[0], ast.Name):
                x = s.value.args[0].id                          # in-place shuffle: the oracle returns the new order
                return '(SAssign %s %s)' % (self.target(s.value.args[0]), self.draw('shuffle', ['(EVar %s)' % cstring(x)]))
            raise Untranslatable('statement on a random generator')
        if isinstance(s, ast.Assign) and len(s.targets) == 1 and isinstance(s.targets[0], ast.Tuple) and isinstance(s.value, ast.Tuple) \
                and len(s.targets[0].elts) == len(s.value.elts):
            # a, b = x, y : every right-hand side is evaluated before any target is assigned
            tmps = [self.fresh() for _ in s.value.elts]
            out = ['(SAssign %s %s)' % (cstring(t), self.expr(v)) for t, v in zip(tmps, s.value.elts)]
            out += [self.assign_to(t, '(EVar %s)' % cstring(tmp)) for t, tmp in zip(s.targets[0].elts, tmps)]
            r = out[-1]
            for h in reversed(out[:-1]):
                r = '(SSeq %s %s)' % (h, r)
            return r
        if isinstance(s, ast.If) and any(isinstance(n, ast.Name) and n.id.startswith('_VERIF_') for n in ast.walk(s.test)):
            return 'SSkip'                      # the guarded verification hook (LOCALCIDER_VERIF): not part of the library's behaviour
        if isinstance(s, ast.Expr) and isinstance(s.value, ast.Call) and dotted(s.value.func) in LOG_CALLS:
            return 'SSkip'
        if isinstance(s, ast.Assign) and isinstance(s.value, ast.Call) and dotted(s.value.func) == 'self.mklog':
            return 'SSkip'                      # a log file is created; its name is only ever handed to self.writeLog
        if isinstance(s, ast.Expr) and isinstance(s.value, ast.Call) and isinstance(s.value.func, ast.Attribute) \
                and isinstance(s.value.func.value, ast.Name) and s.value.func.value.id == 'self' \
                and (s.value.func.attr.startswith('__check') or s.value.func.attr.startswith('__verify') or s.value.func.attr == 'sanity_check'):
            return '(SAssign "$_" %s)' % self.expr(s.value)          # a guard method called for its exception
        if isinstance(s, ast.Assign) and len(s.targets) == 1 and isinstance(s.targets[0], ast.Tuple) and isinstance(s.value, ast.Call):
            # (a, b, ...) = f(...): the call's result is bound once, then unpacked by position
            tmp = self.fresh()
            out = ['(SAssign %s %s)' % (cstring(tmp), self.expr(s.value))]
            out += [self.assign_to(t, '(EIndex (EVar %s) (EConst (VInt (%d))))' % (cstring(tmp), i)) for i, t in enumerate(s.targets[0].elts)]
            r = out[-1]
            for h in reversed(out[:-1]):
                r = '(SSeq %s %s)' % (h, r)
            return r
        if isinstance(s, ast.Expr):
            v = s.value
            if isinstance(v, ast.Constant) and isinstance(v.value, str):
                return 'SSkip'                                   # docstring
            if isinstance(v, ast.Call):
                d = dotted(v.func)
                if d is not None and d.split('.')[-1] in MESSAGE_CALLS:
                    return 'SSkip'
                if isinstance(v.func, ast.Attribute) and v.func.attr == 'append' and len(v.args) == 1:
                    return '(SAppend %s %s)' % (self.target(v.func.value), self.expr(v.args[0]))
                if isinstance(v.func, ast.Attribute) and v.func.attr == 'add' and len(v.args) == 1 and isinstance(v.func.value, ast.Name):
                    x = self.target(v.func.value)                 # set.add(e): append unless already a member
                    ex = self.expr(v.args[0])
                    return '(SIf (ENotIn %s (EVar %s)) (SAppend %s %s) SSkip)' % (ex, x, x, ex)
                if isinstance(v.func, ast.Attribute) and dotted(v.func.value) == 'self.SeqObj' and not v.keywords:
                    return '(SAssign "$_" %s)' % self.expr(v)      # a backend method called for its effect: the call, result discarded
            raise Untranslatable('expression statement')
        if isinstance(s, ast.Pass):
            return 'SSkip'
        if isinstance(s, ast.Continue):
            return 'SContinue'
        if isinstance(s, ast.Break):
            return 'SBreak'
        if isinstance(s, ast.Raise):
            return 'SRaise'
        if isinstance(s, ast.Return):
            return '(SReturn %s)' % (self.expr(s.value) if s.value is not None else '(EConst VNone)')
        if isinstance(s, ast.Assign) and len(s.targets) == 1 and isinstance(s.targets[0], ast.Subscript) \
                and not isinstance(s.targets[0].slice, ast.Slice):
            t = s.targets[0]
            return '(SSetItem %s %s %s)' % (self.target(t.value), self.expr(t.slice), self.expr(s.value))
        if isinstance(s, ast.Assign):
            if len(s.targets) != 1:
                raise Untranslatable('multiple assignment')
            return '(SAssign %s %s)' % (self.target(s.targets[0]), self.expr(s.value))
        if isinstance(s, ast.AugAssign) and isinstance(s.op, (ast.Add, ast.Sub)) and isinstance(s.target, ast.Subscript) \
                and not isinstance(s.target.slice, ast.Slice) and isinstance(s.target.value, ast.Name):
            x = self.target(s.target.value)           # x[k] += v : x[k] = x[k] + v (k is an expression without effects)
            k = self.expr(s.target.slice)
            op = 'EAdd' if isinstance(s.op, ast.Add) else 'ESub'
            return '(SSetItem %s %s (%s (EIndex (EVar %s) %s) %s))' % (x, k, op, x, k, self.expr(s.value))
        if isinstance(s, ast.AugAssign) and isinstance(s.op, (ast.Add, ast.Sub)):
            t = self.target(s.target)
            op = 'EAdd' if isinstance(s.op, ast.Add) else 'ESub'
            return '(SAssign %s (%s (EVar %s) %s))' % (t, op, t, self.expr(s.value))
        if isinstance(s, ast.If):
            return '(SIf %s %s %s)' % (self.expr(s.test), self.block(s.body), self.block(s.orelse) if s.orelse else 'SSkip')
        if isinstance(s, ast.For):
            if s.orelse:
                raise Untranslatable('for-else')
            return '(SFor %s %s %s)' % (self.target(s.target), self.expr(s.iter), self.block(s.body))
        if isinstance(s, ast.Try):
            # try: x = x.upper() except AttributeError: pass   — upper-case when x is a string, untouched otherwise
            if (not s.orelse and not s.finalbody and len(s.handlers) == 1 and isinstance(s.handlers[0].type, ast.Name)
                    and s.handlers[0].type.id == 'AttributeError' and len(s.handlers[0].body) == 1 and isinstance(s.handlers[0].body[0], ast.Pass)
                    and len(s.body) == 1 and isinstance(s.body[0], ast.Assign) and len(s.body[0].targets) == 1
                    and isinstance(s.body[0].targets[0], ast.Name)
                    and ast.unparse(s.body[0].value) == '%s.upper()' % s.body[0].targets[0].id):
                x = s.body[0].targets[0].id
                return '(SIf (EIsStr (EVar %s)) %s SSkip)' % (cstring(x), self.stmt(s.body[0]))
            # try: BODY except E: raise ...   — whatever BODY raises, an exception leaves the statement: same as BODY
            ok = (not s.orelse and not s.finalbody and s.handlers and
                  all(len(h.body) == 1 and isinstance(h.body[0], ast.Raise) for h in s.handlers))
            if not ok:
                raise Untranslatable('try-statement whose handlers do more than raise')
            return self.block(s.body)
        if isinstance(s, ast.With):
            # `with open(filename) as fh: content = fh.readlines()` — the lines of the file are an INPUT of the translated
            # function (variable "content"); nothing else may happen inside the with-block
            ok = (len(s.items) == 1 and isinstance(s.items[0].context_expr, ast.Call) and dotted(s.items[0].context_expr.func) == 'open'
                  and isinstance(s.items[0].optional_vars, ast.Name) and len(s.body) == 1 and isinstance(s.body[0], ast.Assign)
                  and ast.unparse(s.body[0]) == 'content = %s.readlines()' % s.items[0].optional_vars.id)
            if not ok:
                raise Untranslatable('with-statement other than reading all lines into `content`')
            return 'SSkip'
        if isinstance(s, ast.While):
            if s.orelse:
                raise Untranslatable('while-else')
            return '(SWhile %s %s)' % (self.expr(s.test), self.block(s.body))
        raise Untranslatable('statement %s' % type(s).__name__)


def literal_dicts(path):
    """module-level NAME = {literal} assignments of a data module"""
    out = {}
    tree = parse_file(path)
    for n in tree.body:
        if isinstance(n, ast.Assign) and len(n.targets) == 1 and isinstance(n.targets[0], ast.Name):
            try:
                v = ast.literal_eval(n.value)
            except Exception:
                continue
            out[n.targets[0].id] = v
        if isinstance(n, ast.FunctionDef) and not n.args.args:
            body = [b for b in n.body if not (isinstance(b, ast.Expr) and isinstance(b.value, ast.Constant))]
            if len(body) == 1 and isinstance(body[0], ast.Return) and body[0].value is not None:
                try:
                    out[n.name + '()'] = ast.literal_eval(body[0].value)      # def f(): return {literal}
                except Exception:
                    pass
    return out


FDIV = {'g_LZW', 'g_LC', 'g_CWF'}
QDIV = {'g_amino_acid_fraction', 'g_wl_geometry', 'g_linDensity', 'g_meanHydropathy', 'g_uverskyHydropathy', 'g_meanWWHydropathy', 'g_molecular_weight', 'g_FPPII_chain', 'g_fraction_disorder_promoting', 'g_FER', 'g_linHydro', 'g_charge_at_pH', 'g_SCD', 'g_sigma', 'g_deltaForm', 'g_delta', 'g_kappa', 'g_Fplus', 'g_Fminus', 'g_FCR', 'g_NCPR'}

FUNCS = [
    # (Coq name, file, class, function, prefixes under which the data module's names are visible there)
    ('g_validateSequence', 'localcider/backend/sequence.py', 'Sequence', 'validateSequence', ['data.aminoacids.', 'aminoacids.']),
    ('g_validSeq', 'localcider/backend/seqfileparser.py', 'SequenceFileParser', '__validSeq', ['']),
    ('g_setPhosPhoSites', 'localcider/backend/sequence.py', 'Sequence', 'setPhosPhoSites', ['data.aminoacids.', 'aminoacids.']),
    ('g_isoelectric_point', 'localcider/backend/sequence.py', 'Sequence', 'isoelectric_point', []),
    ('g_final_validation', 'localcider/backend/seqfileparser.py', 'SequenceFileParser', '__final_validation', []),
    ('g_get_phosphosites', 'localcider/backend/sequence.py', 'Sequence', 'get_phosphosites', []),
    ('g_get_STY_residues', 'localcider/backend/sequence.py', 'Sequence', 'get_STY_residues', []),
    ('g_get_phosphosequence', 'localcider/backend/sequence.py', 'Sequence', 'get_phosphosequence', []),
    ('g_clear_phosphosites', 'localcider/backend/sequence.py', 'Sequence', 'clear_phosphosites', []),
    ('g_set_palette', 'localcider/backend/sequence.py', 'Sequence', 'set_HTMLColorResiduePalette', ['data.aminoacids.', 'aminoacids.']),
    ('g_get_html', 'localcider/backend/sequence.py', 'Sequence', 'get_HTMLColorString', []),
    ('g_reduce_user', 'localcider/backend/sequenceComplexity.py', 'SequenceComplexity', 'reduce_alphabet', [''],
     'len(userAlphabet) > 0'),
    ('g_init_prefix', 'localcider/backend/sequence.py', 'Sequence', '__init__', [],
     ('upto', 'self.chargePattern = chargePattern')),
    ('g_parse_group', 'localcider/backend/sequence.py', 'Sequence', '__parse_group', ['aminoacids.']),
    ('g_kappa_at_maxPhos', 'localcider/backend/sequence.py', 'Sequence', 'kappa_at_maxPhos', []),
    ('g_kappa_X', 'localcider/backend/sequence.py', 'Sequence', 'kappa_X', []),
    ('g_Omega', 'localcider/backend/sequence.py', 'Sequence', 'Omega', []),
    ('g_Omega_seq', 'localcider/backend/sequence.py', 'Sequence', 'Omega_seq', []),
    ('g_parseSeqFile', 'localcider/backend/seqfileparser.py', 'SequenceFileParser', 'parseSeqFile', []),
    ('g_init_core', 'localcider/backend/sequence.py', 'Sequence', '__init__', [], ('upto', 'self.dmax = dmax')),
    ('g_fw_get_length', 'localcider/sequenceParameters.py', 'SequenceParameters', 'get_length', []),
    ('g_fw_get_mean_hydropathy', 'localcider/sequenceParameters.py', 'SequenceParameters', 'get_mean_hydropathy', []),
    ('g_fw_get_uversky_hydropathy', 'localcider/sequenceParameters.py', 'SequenceParameters', 'get_uversky_hydropathy', []),
    ('g_fw_get_WW_hydropathy', 'localcider/sequenceParameters.py', 'SequenceParameters', 'get_WW_hydropathy', []),
    ('g_fw_get_fraction_disorder_promoting', 'localcider/sequenceParameters.py', 'SequenceParameters', 'get_fraction_disorder_promoting', []),
    ('g_fw_get_amino_acid_fractions', 'localcider/sequenceParameters.py', 'SequenceParameters', 'get_amino_acid_fractions', []),
    ('g_fw_get_SCD', 'localcider/sequenceParameters.py', 'SequenceParameters', 'get_SCD', []),
    ('g_fw_get_kappa', 'localcider/sequenceParameters.py', 'SequenceParameters', 'get_kappa', []),
    ('g_fw_get_Omega', 'localcider/sequenceParameters.py', 'SequenceParameters', 'get_Omega', []),
    ('g_fw_get_Omega_sequence', 'localcider/sequenceParameters.py', 'SequenceParameters', 'get_Omega_sequence', []),
    ('g_fw_get_kappa_X', 'localcider/sequenceParameters.py', 'SequenceParameters', 'get_kappa_X', []),
    ('g_fw_get_deltaMax', 'localcider/sequenceParameters.py', 'SequenceParameters', 'get_deltaMax', []),
    ('g_fw_get_delta', 'localcider/sequenceParameters.py', 'SequenceParameters', 'get_delta', []),
    ('g_fw_get_countPos', 'localcider/sequenceParameters.py', 'SequenceParameters', 'get_countPos', []),
    ('g_fw_get_countNeg', 'localcider/sequenceParameters.py', 'SequenceParameters', 'get_countNeg', []),
    ('g_fw_get_countNeut', 'localcider/sequenceParameters.py', 'SequenceParameters', 'get_countNeut', []),
    ('g_fw_get_fraction_positive', 'localcider/sequenceParameters.py', 'SequenceParameters', 'get_fraction_positive', []),
    ('g_fw_get_fraction_negative', 'localcider/sequenceParameters.py', 'SequenceParameters', 'get_fraction_negative', []),
    ('g_fw_get_isoelectric_point', 'localcider/sequenceParameters.py', 'SequenceParameters', 'get_isoelectric_point', []),
    ('g_fw_get_molecular_weight', 'localcider/sequenceParameters.py', 'SequenceParameters', 'get_molecular_weight', []),
    ('g_fw_get_phasePlotRegion', 'localcider/sequenceParameters.py', 'SequenceParameters', 'get_phasePlotRegion', []),
    ('g_fw_get_phosphosites', 'localcider/sequenceParameters.py', 'SequenceParameters', 'get_phosphosites', []),
    ('g_fw_get_all_phosphorylatable_sites', 'localcider/sequenceParameters.py', 'SequenceParameters', 'get_all_phosphorylatable_sites', []),
    ('g_fw_get_phosphosequence', 'localcider/sequenceParameters.py', 'SequenceParameters', 'get_phosphosequence', []),
    ('g_fw_get_PPII_propensity', 'localcider/sequenceParameters.py', 'SequenceParameters', 'get_PPII_propensity', []),
    ('g_fw_get_linear_sigma', 'localcider/sequenceParameters.py', 'SequenceParameters', 'get_linear_sigma', []),
    ('g_fw_get_linear_NCPR', 'localcider/sequenceParameters.py', 'SequenceParameters', 'get_linear_NCPR', []),
    ('g_fw_get_linear_FCR', 'localcider/sequenceParameters.py', 'SequenceParameters', 'get_linear_FCR', []),
    ('g_fw_get_linear_hydropathy', 'localcider/sequenceParameters.py', 'SequenceParameters', 'get_linear_hydropathy', []),
    ('g_fw_get_linear_sequence_composition', 'localcider/sequenceParameters.py', 'SequenceParameters', 'get_linear_sequence_composition', []),
    ('g_fw_get_reduced_alphabet_sequence', 'localcider/sequenceParameters.py', 'SequenceParameters', 'get_reduced_alphabet_sequence', []),
    ('g_fw_get_HTMLColorString', 'localcider/sequenceParameters.py', 'SequenceParameters', 'get_HTMLColorString', []),
    ('g_fw_get_FCR', 'localcider/sequenceParameters.py', 'SequenceParameters', 'get_FCR', []),
    ('g_fw_get_NCPR', 'localcider/sequenceParameters.py', 'SequenceParameters', 'get_NCPR', []),
    ('g_fw_get_mean_net_charge', 'localcider/sequenceParameters.py', 'SequenceParameters', 'get_mean_net_charge', []),
    ('g_fw_get_fraction_expanding', 'localcider/sequenceParameters.py', 'SequenceParameters', 'get_fraction_expanding', []),
    ('g_fw_get_kappa_after_phosphorylation', 'localcider/sequenceParameters.py', 'SequenceParameters', 'get_kappa_after_phosphorylation', []),
    ('g_fw_get_sequence', 'localcider/sequenceParameters.py', 'SequenceParameters', 'get_sequence', []),
    ('g_fw_get_shuffled_sequence', 'localcider/sequenceParameters.py', 'SequenceParameters', 'get_shuffled_sequence', []),
    ('g_fw_set_phosphosites', 'localcider/sequenceParameters.py', 'SequenceParameters', 'set_phosphosites', []),
    ('g_fw_clear_phosphosites', 'localcider/sequenceParameters.py', 'SequenceParameters', 'clear_phosphosites', []),
    ('g_fw_get_full_phosphostatus', 'localcider/sequenceParameters.py', 'SequenceParameters', 'get_full_phosphostatus_kappa_distribution', []),
    ('g_numstates', 'localcider/backend/sequence.py', 'Sequence', 'calculateNumberDifferentPhosphoStates', []),
    ('g_mean_net_charge', 'localcider/backend/sequence.py', 'Sequence', 'mean_net_charge', []),
    ('g_get_reducedAlphabetSequence', 'localcider/backend/sequence.py', 'Sequence', 'get_reducedAlphabetSequence', []),
    ('g_verify_pH', 'localcider/sequenceParameters.py', 'SequenceParameters', '__verify_pH', []),
    ('g_charge_at_pH', 'localcider/backend/sequence.py', 'Sequence', 'charge_at_pH', ['data.aminoacids.', 'aminoacids.']),
    ('g_phosdist', 'localcider/backend/sequence.py', 'Sequence', 'calculateKappaDistOfPhosphoStates', []),
    ('g_SCD', 'localcider/backend/sequence.py', 'Sequence', 'sequence_charge_decoration', []),
    ('g_meanHydropathy', 'localcider/backend/sequence.py', 'Sequence', 'meanHydropathy', ['data.aminoacids.', 'aminoacids.']),
    ('g_uverskyHydropathy', 'localcider/backend/sequence.py', 'Sequence', 'uverskyHydropathy', ['data.aminoacids.', 'aminoacids.']),
    ('g_meanWWHydropathy', 'localcider/backend/sequence.py', 'Sequence', 'meanWWHydropathy', ['data.aminoacids.', 'aminoacids.']),
    ('g_molecular_weight', 'localcider/backend/sequence.py', 'Sequence', 'molecular_weight', ['data.aminoacids.', 'aminoacids.']),
    ('g_FPPII_chain', 'localcider/backend/sequence.py', 'Sequence', 'FPPII_chain', ['data.aminoacids.', 'aminoacids.']),
    ('g_fraction_disorder_promoting', 'localcider/backend/sequence.py', 'Sequence', 'fraction_disorder_promoting', ['data.aminoacids.', 'aminoacids.']),
    ('g_FER', 'localcider/backend/sequence.py', 'Sequence', 'FER', ['data.aminoacids.', 'aminoacids.']),
    ('g_amino_acid_fraction', 'localcider/backend/sequence.py', 'Sequence', 'amino_acid_fraction', []),
    ('g_countPos', 'localcider/backend/sequence.py', 'Sequence', 'countPos', []),
    ('g_countNeg', 'localcider/backend/sequence.py', 'Sequence', 'countNeg', []),
    ('g_countNeut', 'localcider/backend/sequence.py', 'Sequence', 'countNeut', []),
    ('g_Fplus', 'localcider/backend/sequence.py', 'Sequence', 'Fplus', []),
    ('g_Fminus', 'localcider/backend/sequence.py', 'Sequence', 'Fminus', []),
    ('g_FCR', 'localcider/backend/sequence.py', 'Sequence', 'FCR', []),
    ('g_NCPR', 'localcider/backend/sequence.py', 'Sequence', 'NCPR', []),
    ('g_permutant', 'localcider/backend/sequence.py', 'Sequence', '__permutant_from_reduced_seq', []),
    ('g_sigma', 'localcider/backend/sequence.py', 'Sequence', 'sigma', []),
    ('g_deltaForm', 'localcider/backend/sequence.py', 'Sequence', 'deltaForm', []),
    ('g_delta', 'localcider/backend/sequence.py', 'Sequence', 'delta', []),
    ('g_kappa', 'localcider/backend/sequence.py', 'Sequence', 'kappa', []),
    ('g_linCompositions', 'localcider/backend/sequence.py', 'Sequence', 'linearCompositions', []),
    ('g_linDensity', 'localcider/backend/sequence.py', 'Sequence', 'linearDenistyOfAAs', []),
    ('g_linHydro', 'localcider/backend/sequence.py', 'Sequence', 'linearDistOfHydropathy', ['aminoacids.']),
    ('g_linNCPR', 'localcider/backend/sequence.py', 'Sequence', 'linearDistOfNCPR', []),
    ('g_linFCR', 'localcider/backend/sequence.py', 'Sequence', 'linearDistOfFCR', []),
    ('g_linSigma', 'localcider/backend/sequence.py', 'Sequence', 'linearDistOfSigma', []),
    ('g_check_window', 'localcider/backend/sequence.py', 'Sequence', '__check_window_to_length', []),
    ('g_indexed', 'localcider/backend/sequenceComplexity.py', 'SequenceComplexity', 'get_indexed_complexity_vector', []),
    ('g_get_WF_complexity', 'localcider/backend/sequenceComplexity.py', 'SequenceComplexity', 'get_WF_complexity', []),
    ('g_get_LC_complexity', 'localcider/backend/sequenceComplexity.py', 'SequenceComplexity', 'get_LC_complexity', []),
    ('g_get_LZW_complexity', 'localcider/backend/sequenceComplexity.py', 'SequenceComplexity', 'get_LZW_complexity', []),
    ('g_get_linear_WF', 'localcider/backend/sequence.py', 'Sequence', 'get_linear_WF_complexity', []),
    ('g_get_linear_LC', 'localcider/backend/sequence.py', 'Sequence', 'get_linear_LC_complexity', []),
    ('g_get_linear_LZW', 'localcider/backend/sequence.py', 'Sequence', 'get_linear_LZW_complexity', []),
    ('g_fw_get_linear_complexity', 'localcider/sequenceParameters.py', 'SequenceParameters', 'get_linear_complexity', []),
    ('g_LZW', 'localcider/backend/sequenceComplexity.py', 'SequenceComplexity', 'LZW', []),
    ('g_CWF', 'localcider/backend/sequenceComplexity.py', 'SequenceComplexity', 'CWF', []),
    ('g_LC', 'localcider/backend/sequenceComplexity.py', 'SequenceComplexity', 'LC', []),
    ('g_wl_step', 'localcider/backend/wang_landau.py', 'WangLandauMachine', 'run_normal_WL', [], ('while-body', 'f > self.convergence')),
    ('g_wl_setup', 'localcider/backend/wang_landau.py', 'WangLandauMachine', 'run_normal_WL', [], ('upto', 'reject = 0')),
    ('g_wl_geometry', 'localcider/backend/wang_landau.py', 'WangLandauMachine', '__init__', [], ('else-of', "WL_type == 'ZOOM'")),
    ('g_wl_flatcheck', 'localcider/backend/wang_landau.py', 'WangLandauMachine', '__run_flatcheck', []),
    ('g_wl_inside', 'localcider/backend/wang_landau.py', 'WangLandauMachine', 'indexInsideRelevantRegion', []),
    ('g_swapRes', 'localcider/backend/sequence.py', 'Sequence', 'swapRes', []),
    ('g_full_shuffle', 'localcider/backend/sequence.py', 'Sequence', 'full_shuffle', []),
    ('g_swapRandChargeRes', 'localcider/backend/sequence.py', 'Sequence', 'swapRandChargeRes', []),
]


def generate(repo):
    out = Out('GMiniPy', 'localcider/backend/{sequence,seqfileparser}.py (function bodies as Core.MiniPy terms)',
              ['From Coq Require Import List String Ascii ZArith QArith.', 'From LC Require Import Core.MiniPy.',
               'Import ListNotations.', 'Local Open Scope string_scope.'])
    data = literal_dicts(os.path.join(repo, 'localcider/backend/data/aminoacids.py'))

    def one(name, rel, cls, fn, prefixes, select=None):
        def thunk():
            node = find_func(parse_file(os.path.join(repo, rel)), fn, cls)
            if isinstance(select, tuple) and select[0] == 'upto':      # the leading statements, up to and including one given statement
                idx = [i for i, n in enumerate(node.body) if ' '.join(ast.unparse(n).split()) == select[1]]
                if len(idx) != 1:
                    raise Untranslatable('statement `%s` not found exactly once' % select[1])
                node = ast.FunctionDef(name=node.name, args=node.args, body=node.body[:idx[0] + 1], decorator_list=[])
            elif isinstance(select, tuple) and select[0] == 'else-of':          # the else-branch of the one top-level if with the given test
                hits = [n for n in node.body if isinstance(n, ast.If) and ' '.join(ast.unparse(n.test).split()) == select[1]]
                if len(hits) != 1 or not hits[0].orelse:
                    raise Untranslatable('block `if %s: ... else:` not found exactly once' % select[1])
                node = ast.FunctionDef(name=node.name, args=node.args, body=hits[0].orelse, decorator_list=[])
            elif isinstance(select, tuple) and select[0] == 'while-body':      # the body of the one while-loop with the given test
                hits = [n for n in ast.walk(node) if isinstance(n, ast.While) and ' '.join(ast.unparse(n.test).split()) == select[1]]
                if len(hits) != 1 or hits[0].orelse:
                    raise Untranslatable('loop `while %s:` not found exactly once' % select[1])
                preseed = []
                for n in ast.walk(node):          # every local of the function counts as assigned (objects bound before the loop)
                    if isinstance(n, (ast.Assign, ast.AugAssign)):
                        for t in (n.targets if isinstance(n, ast.Assign) else [n.target]):
                            for m in ([t] if isinstance(t, ast.Name) else (t.elts if isinstance(t, ast.Tuple) else [])):
                                if isinstance(m, ast.Name) and m.id not in preseed:
                                    preseed.append(m.id)
                for n in node.body:               # generators created before the loop
                    if isinstance(n, ast.Assign) and isinstance(n.value, ast.Call) and dotted(n.value.func) == 'rng.Random' \
                            and isinstance(n.targets[0], ast.Name):
                        preseed.append('rng:' + n.targets[0].id)
                node = ast.FunctionDef(name=node.name, args=node.args, body=hits[0].body, decorator_list=[])
                node._preseed = preseed
            elif select is not None:          # translate one top-level if-block of the function (its body), chosen by its test
                hits = [n for n in node.body if isinstance(n, ast.If) and ' '.join(ast.unparse(n.test).split()) == select]
                if len(hits) != 1 or hits[0].orelse:
                    raise Untranslatable('block `if %s:` not found exactly once (without else)' % select)
                blk = ast.FunctionDef(name=node.name, args=node.args, body=hits[0].body, decorator_list=[])
                node = blk
            consts = {}
            for p in prefixes:
                for k, v in data.items():
                    consts[p + k] = v
            tr = Tr(consts)
            tr.fdiv = name in FDIV
            tr.qdiv = name in QDIV
            for x in getattr(node, '_preseed', []):
                if x.startswith('rng:'):
                    tr.rngs.add(x[4:])
                elif x not in tr.assigned:
                    tr.assigned.append(x)
            term = tr.block(node.body)
            params = [a.arg for a in node.args.args]
            return ('(* %s.%s(%s) in %s *)\nDefinition %s : stmt :=\n  %s.\nDefinition %s_assigned : list string := [%s].'
                    % (cls, fn, ', '.join(params), rel, name, term, name, '; '.join(cstring(x) for x in tr.assigned)))
        return thunk
    for entry in FUNCS:
        out.add(entry[0], one(*entry))
    return out
