"""G1 — backend/data/aminoacids.py: every literal table, the KD shift/normalisation
constants and the column order of the residue skeleton; plus backend/residue.py and
backend/restable.py (which column ends up in which Residue attribute)."""
import ast
from .common import *

SRC = 'localcider/backend/data/aminoacids.py'
OUTPUTS = ['GTables']


def _module_assign(tree, name):
    for s in tree.body:
        if isinstance(s, ast.Assign) and len(s.targets) == 1 and isinstance(s.targets[0], ast.Name) \
                and s.targets[0].id == name:
            return s.value
    raise Untranslatable('module-level %s not found' % name)


def _aa_key(k):
    if isinstance(k, str) and len(k) == 1:
        return coq_aa1(k)
    return coq_aa3(k)


def _qtable(name, pairs):
    for k, v in pairs:
        need(isinstance(v, (int, float)) and not isinstance(v, bool), '%s: non-numeric value' % name)
    body = coq_list(['(%s, %s)' % (_aa_key(k), coq_q(v)) for k, v in pairs])
    return 'Definition %s : list (aa * Q) := %s.' % (name, body)


def _strtable(name, pairs):
    return 'Definition %s : list (aa * string) := %s.' % (
        name, coq_list(['(%s, %s)' % (_aa_key(k), coq_str(v)) for k, v in pairs]))


def _loop_const(func, srcname, op):
    """`for i in <src>: out[i] = <src>[i] <op> CONST`  -> CONST"""
    for s in ast.walk(func):
        if isinstance(s, ast.For) and len(s.body) == 1 and isinstance(s.body[0], ast.Assign):
            a = s.body[0]
            v = a.value
            if isinstance(v, ast.BinOp) and isinstance(v.op, op) and isinstance(v.left, ast.Subscript) \
                    and isinstance(v.left.value, ast.Name) and v.left.value.id == srcname \
                    and isinstance(a.targets[0], ast.Subscript) and isinstance(s.iter, ast.Name) \
                    and s.iter.id == srcname:
                return const(v.right)
    raise Untranslatable('%s: loop `out[i] = %s[i] op c` not found' % (func.name, srcname))


def _call_assign(func, var):
    """`var = f()` inside func -> 'f'"""
    for s in func.body:
        if isinstance(s, ast.Assign) and len(s.targets) == 1 and isinstance(s.targets[0], ast.Name) \
                and s.targets[0].id == var and isinstance(s.value, ast.Call) and isinstance(s.value.func, ast.Name) \
                and not s.value.args:
            return s.value.func.id
    raise Untranslatable('%s: %s = f() not found' % (func.name, var))


def generate(repo):
    tree = parse_file(repo + '/' + SRC)
    out = Out('GTables', SRC, ['From Coq Require Import List ZArith QArith String.',
                               'From LC Require Import Core.Residue.',
                               'Import ListNotations.', 'Local Open Scope string_scope.'])
    for fn, nm in [('get_KD_original', 'kd_original'), ('get_residue_charge', 'residue_charge'),
                   ('get_WW_original', 'ww_original'), ('get_PPII_Hilser', 'ppii_hilser'),
                   ('get_PPII_Creamer', 'ppii_creamer'), ('get_PPII_Kallenbach', 'ppii_kallenbach'),
                   ('get_pKa', 'pka'), ('get_molecular_weight_Da', 'mol_weight')]:
        out.add(nm, lambda fn=fn, nm=nm: _qtable(nm, returned_dict(find_func(tree, fn))))

    def one_to_three():
        pairs = dict_literal(_module_assign(tree, 'ONE_TO_THREE'))
        return 'Definition one_to_three : list (aa * aa) := %s.' % coq_list(
            ['(%s, %s)' % (coq_aa1(k), coq_aa3(v)) for k, v in pairs])

    def three_to_one():
        pairs = dict_literal(_module_assign(tree, 'THREE_TO_ONE'))
        return 'Definition three_to_one : list (aa * aa) := %s.' % coq_list(
            ['(%s, %s)' % (coq_aa3(k), coq_aa1(v)) for k, v in pairs])

    out.add('one_to_three', one_to_three)
    out.add('three_to_one', three_to_one)
    out.add('twenty_aas', lambda: 'Definition twenty_aas : list aa := %s.' % coq_list(
        [coq_aa1(c) for c in str_list(_module_assign(tree, 'TWENTY_AAs'))]))
    out.add('default_palette', lambda: _strtable('default_palette',
                                                 dict_literal(_module_assign(tree, 'DEFAULT_COLOR_PALETTE'))))

    def shift():
        f = find_func(tree, 'get_KD_shifted')
        need(_call_assign(f, 'original') == 'get_KD_original', 'get_KD_shifted does not start from get_KD_original')
        return 'Definition kd_shift : Q := %s.' % coq_q(_loop_const(f, 'original', ast.Add))

    def norm():
        f = find_func(tree, 'get_KD_uversky')
        need(_call_assign(f, 'shifted') == 'get_KD_shifted', 'get_KD_uversky does not start from get_KD_shifted')
        return 'Definition kd_norm : Q := %s.' % coq_q(_loop_const(f, 'shifted', ast.Div))

    out.add('kd_shift', shift)
    out.add('kd_norm', norm)

    def skeleton():
        """column order: which table feeds hydropathy / charge / the three PPII attributes"""
        f = find_func(tree, 'build_amino_acids_skeleton')
        src = {}
        for s in f.body:
            if isinstance(s, ast.Assign) and isinstance(s.targets[0], ast.Name) and isinstance(s.value, ast.Call) \
                    and isinstance(s.value.func, ast.Name):
                src[s.targets[0].id] = s.value.func.id
        sk = None
        for s in f.body:
            if isinstance(s, ast.Assign) and isinstance(s.targets[0], ast.Name) and s.targets[0].id == 'skeleton':
                sk = s.value
        need(sk is not None and isinstance(sk, ast.List), 'skeleton literal not found')
        rows = []
        for e in sk.elts:
            r = str_list(e)
            need(len(r) == 3, 'skeleton row is not [name, three, one]')
            rows.append('(%s, %s)' % (coq_aa3(r[1]), coq_aa1(r[2])))
        loops = [s for s in f.body if isinstance(s, ast.For)]
        need(len(loops) == 1, 'skeleton fill loop not found')
        cols = []
        for st in loops[0].body:
            need(isinstance(st, ast.Expr) and isinstance(st.value, ast.Call)
                 and isinstance(st.value.func, ast.Attribute) and st.value.func.attr == 'append'
                 and isinstance(st.value.func.value, ast.Name) and st.value.func.value.id == 'res',
                 'fill loop statement is not res.append(..)')
            a = st.value.args[0]
            need(isinstance(a, ast.Subscript) and isinstance(a.value, ast.Name) and a.value.id in src
                 and isinstance(a.slice, ast.Subscript) and isinstance(a.slice.value, ast.Name)
                 and a.slice.value.id == 'res' and const(a.slice.slice) == 1, 'append argument is not T[res[1]]')
            cols.append(src[a.value.id])
        # restable.py: Residue(r[0], .., r[7]) and residue.py: parameter order
        rt = parse_file(repo + '/localcider/backend/restable.py')
        init = find_func(rt, '__init__', 'ResTable')
        call = None
        for n in ast.walk(init):
            if isinstance(n, ast.Call) and isinstance(n.func, ast.Name) and n.func.id == 'Residue':
                call = n
        need(call is not None and not call.keywords, 'Residue(...) call not found')
        idx = []
        for a in call.args:
            need(isinstance(a, ast.Subscript) and isinstance(a.value, ast.Name) and a.value.id == 'r', 'Residue arg shape')
            idx.append(const(a.slice))
        rs = parse_file(repo + '/localcider/backend/residue.py')
        rinit = find_func(rs, '__init__', 'Residue')
        params = [a.arg for a in rinit.args.args][1:]
        need(len(params) == len(idx), 'Residue arity mismatch')
        attr = {}
        for s in rinit.body:
            if isinstance(s, ast.Assign) and isinstance(s.targets[0], ast.Attribute) and isinstance(s.value, ast.Name):
                attr[s.targets[0].attr] = s.value.id
            if isinstance(s, ast.Assign) and isinstance(s.targets[0], ast.Attribute) and isinstance(s.value, ast.Dict):
                for k, v in zip(s.value.keys, s.value.values):
                    need(isinstance(v, ast.Name), 'PPII dict value shape')
                    attr['PPII.' + const(k)] = v.id
        # column j of the skeleton row (0..2 literal, 3.. = cols) feeds parameter params[i] where idx[i] = j
        feeds = {}
        for i, j in enumerate(idx):
            feeds[params[i]] = ('literal%d' % j) if j < 3 else cols[j - 3]
        lines = []
        for a in ('hydropathy', 'charge', 'PPII.hilser', 'PPII.creamer', 'PPII.kallenbach', 'letterCode3', 'letterCode1'):
            need(a in attr and attr[a] in feeds, 'attribute %s not traced' % a)
            lines.append('(%s, %s)' % (coq_str(a), coq_str(feeds[attr[a]])))
        return ('Definition skeleton_rows : list (aa * aa) := %s.\n\n'
                'Definition attribute_source : list (string * string) := %s.' % (coq_list(rows), coq_list(lines)))

    out.add('skeleton', skeleton)

    def lookups():
        """restable.lookUpCharge special cases and lookUp* attribute names"""
        rt = parse_file(repo + '/localcider/backend/restable.py')
        f = find_func(rt, 'lookUpCharge', 'ResTable')
        chain = [s for s in strip_doc(f.body) if isinstance(s, ast.If)]
        need(len(chain) == 1, 'lookUpCharge chain')
        node, spec = chain[0], []
        while True:
            t = node.test
            need(isinstance(t, ast.Compare) and isinstance(t.ops[0], ast.Eq) and isinstance(t.left, ast.Name)
                 and t.left.id == 'resCode', 'lookUpCharge test shape')
            need(len(node.body) == 1 and isinstance(node.body[0], ast.Return), 'lookUpCharge arm shape')
            spec.append('(%s, %s)' % (coq_str(const(t.comparators[0])), coq_z(const(node.body[0].value))))
            if len(node.orelse) == 1 and isinstance(node.orelse[0], ast.If):
                node = node.orelse[0]
            else:
                els = node.orelse
                break
        need(len(els) == 2 and isinstance(els[1], ast.Return) and isinstance(els[1].value, ast.Attribute)
             and els[1].value.attr == 'charge', 'lookUpCharge else-arm does not return res.charge')
        h = find_func(rt, 'lookUpHydropathy', 'ResTable')
        r = strip_doc(h.body)[-1]
        need(isinstance(r, ast.Return) and isinstance(r.value, ast.Attribute) and r.value.attr == 'hydropathy',
             'lookUpHydropathy does not return res.hydropathy')
        return 'Definition charge_symbols : list (string * Z) := %s%%Z.' % coq_list(spec)

    out.add('lookups', lookups)
    return out
