"""G9 — backend/wang_landau.py: move weights and the statement shapes of run_normal_WL, __run_flatcheck,
bin geometry and the in-range test (compared modulo whitespace; the hook lines are ignored)."""
import ast
from .common import *

OUTPUTS = ['GWL']


def generate(repo):
    tree = parse_file(repo + '/localcider/backend/wang_landau.py')
    out = Out('GWL', 'localcider/backend/wang_landau.py', ['From Coq Require Import List QArith String.', 'Import ListNotations.',
                                                          'Local Open Scope string_scope.'])

    def W(fn):
        return ' '.join(ast.unparse(find_func(tree, fn, 'WangLandauMachine')).split())

    def shapes():
        s = W('run_normal_WL')
        # the loop body, __run_flatcheck and indexInsideRelevantRegion are tied semantically (g_minipy -> Props/Tie/minipy_wl_tie.v);
        # what stays here: the loop test, and the output / log statements the embedding drops
        # the set-up before the loop is tied semantically as well (g_minipy -> Props/Tie/minipy_wlsetup_tie.v: setup_tie)
        frags = ['while f > self.convergence:',
                 "dos.write('%0.3f\\t%5.6f\\n' % (bincts[i], g[i]))", 'return np.vstack((bincts, g))',
                 "self.writeLog(seqlog, '%0.3f\\t%s\\n' % (oseq.kappa(), oseq))",
                 "self.writeLog(hlog, str(flatcount) + '\\t' + self.fprintHVector(Hlocal) + '\\n')"]
        for fr in frags:
            need(' '.join(fr.split()) in s, 'run_normal_WL: missing `%s`' % fr[:50])
        s = W('__run_flatcheck')
        for fr in ["self.writeLog(glog, str(niter) + '\\t' + self.fprintGVector(g) + '\\n')"]:
            need(' '.join(fr.split()) in s, '__run_flatcheck: missing `%s`' % fr[:50])
        need('return 1.0 / float(self.nbins_actual)' in W('getBinSize'), 'getBinSize')
        need('binsz = self.getBinSize() return binsz / 2 + binsz * np.arange(0, self.nbins_actual)' in W('getBinCenters'), 'getBinCenters')
        # the geometry block of __init__ is tied semantically (g_minipy -> Props/Tie/minipy_wl_tie.v: geometry_tie, geometry_is_model)
        return 'Definition g_wl_shapes_ok : bool := true.'
    out.add('shapes', shapes)

    def weights():
        f = find_func(tree, 'run_normal_WL', 'WangLandauMachine')
        ws = {}
        for n in ast.walk(f):
            if isinstance(n, ast.Assign) and isinstance(n.targets[0], ast.Name) and n.targets[0].id.startswith('p_') \
                    and isinstance(n.value, ast.BinOp) and isinstance(n.value.op, ast.Div):
                num = const(n.value.left)
                den = ' '.join(ast.unparse(n.value.right).split())
                need(den == '1 + 41.5 + 69.3 + 78.2', 'weight denominator: ' + den)
                ws[n.targets[0].id] = num
        need(set(ws) == {'p_full_shuffle', 'p_swap_charges', 'p_swap_blocks', 'p_cluster_charges'}, 'move weights')
        return 'Definition g_wl_weights : list (string * Q) := %s.' % coq_list(
            ['(%s, %s)' % (coq_str(k), coq_q(ws[k])) for k in ('p_full_shuffle', 'p_swap_charges', 'p_swap_blocks', 'p_cluster_charges')])
    out.add('weights', weights)
    return out
