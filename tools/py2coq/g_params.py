"""G10/G8 — sequenceParameters.py (constructor, pH guard, complexity types) and
seqfileparser.py (parser constants): fingerprints and constants."""
import ast
from .common import *

OUTPUTS = ['GParams']


class W(str):
    """source text compared modulo whitespace"""
    def __contains__(self, frag):
        return ' '.join(frag.split()) in ' '.join(self.split())


def generate(repo):
    sp = parse_file(repo + '/localcider/sequenceParameters.py')
    sq = parse_file(repo + '/localcider/backend/sequence.py')
    fp = parse_file(repo + '/localcider/backend/seqfileparser.py')
    out = Out('GParams', 'localcider/sequenceParameters.py, backend/sequence.py, backend/seqfileparser.py',
              ['From Coq Require Import List ZArith QArith String Bool.', 'From LC Require Import Core.Residue.',
               'Import ListNotations.', 'Local Open Scope string_scope.'])

    def ctor():
        f = find_func(sp, '__init__', 'SequenceParameters')
        src = W(ast.unparse(f))
        for frag in ["if sequence == '' and sequenceFile == '':\n    raise SequenceException('Empty sequence/sequence file')",
                     "if not sequence == '':\n    self.SeqObj = Sequence(sequence, validateSeq=True)",
                     'parserMachine = SequenceFileParser()',
                     'self.SeqObj = Sequence(parserMachine.parseSeqFile(sequenceFile))']:
            need(frag in src, 'SequenceParameters.__init__: missing `%s`' % frag[:50])
        # the head of Sequence.__init__ is tied semantically (g_minipy -> Props/Tie/minipy_init_tie.v)
        # validateSequence itself is tied semantically (g_minipy -> Props/Tie/minipy_validate_tie.v), not by shape
        ln = W(ast.unparse(find_func(sp, '__len__', 'SequenceParameters')))
        gl = W(ast.unparse(find_func(sp, 'get_length', 'SequenceParameters')))
        gq = W(ast.unparse(find_func(sp, 'get_sequence', 'SequenceParameters')))
        need('return len(self.SeqObj.seq)' in ln and 'return len(self.SeqObj.seq)' in gl and 'return self.SeqObj.seq' in gq,
             'length / sequence getters')
        return 'Definition g_constructor_shape_ok : bool := true.'
    out.add('ctor', ctor)

    def parser():
        # parseSeqFile / __validSeq / __final_validation are tied semantically (g_minipy -> Props/Tie/minipy_parser_tie.v,
        # minipy_validseq_tie.v); only the digit string is read here
        v = find_func(fp, '__validSeq', 'SequenceFileParser')
        digits = None
        for n in ast.walk(v):
            if isinstance(n, ast.Compare) and isinstance(n.ops[0], ast.In) and ast.unparse(n.left) == 'i' \
                    and isinstance(n.comparators[0], ast.Constant):
                digits = n.comparators[0].value
        need(digits is not None, 'digit string')
        return ('Definition g_parser_shape_ok : bool := true.\nDefinition g_parser_digits : string := %s.' % coq_str(''.join(sorted(digits))))
    out.add('parser', parser)

    def ph():
        f = find_func(sp, '__verify_pH', 'SequenceParameters')
        body = strip_doc(f.body)
        need(len(body) == 2 and all(isinstance(b, ast.If) and isinstance(b.body[0], ast.Raise) for b in body), '__verify_pH shape')
        t0, t1 = body[0].test, body[1].test
        need(ast.unparse(t0.left) == 'pH' and isinstance(t0.ops[0], ast.Lt) and ast.unparse(t1.left) == 'pH'
             and isinstance(t1.ops[0], ast.Gt), '__verify_pH comparisons')
        calls = {}
        for nm in ('get_FCR', 'get_NCPR', 'get_mean_net_charge', 'get_fraction_expanding'):
            g = W(ast.unparse(find_func(sp, nm, 'SequenceParameters')))
            need('if pH is not None:\n        self.__verify_pH(pH)' in g, '%s: pH not verified' % nm)
        return 'Definition g_pH_lo : Q := %s.\nDefinition g_pH_hi : Q := %s.' % (coq_q(const(t0.comparators[0])), coq_q(const(t1.comparators[0])))
    out.add('pH', ph)

    def ctypes():
        f = find_func(sp, 'get_linear_complexity', 'SequenceParameters')
        for st in strip_doc(f.body):
            if isinstance(st, ast.Assign) and ast.unparse(st.targets[0]) == 'allowed_types':
                ts = str_list(st.value)
                src = W(ast.unparse(f))
                need('complexityType = complexityType.upper()' in src and 'if complexityType not in allowed_types:\n        raise' in src,
                     'complexity type check')
                return 'Definition g_complexity_types : list string := %s.' % coq_list([coq_str(t) for t in ts])
        raise Untranslatable('allowed_types')
    out.add('ctypes', ctypes)
    return out
