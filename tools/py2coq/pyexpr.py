"""pyexpr — a small symbolic translator from straight-line numeric Python (assignments,
if/elif/else, return, raise) to a Coq expression, with two back ends:

  * QBackend      exact rationals (float literals taken at their decimal spelling)
  * FloatBackend  Coq primitive binary64 floats (literals as exact hex floats)

Unknown statement or expression shapes raise Untranslatable (fail closed).
"""
import ast
from fractions import Fraction
from .common import Untranslatable, need, strip_doc, coq_z


class QBackend:
    ty = 'Q'

    def const(self, v):
        if isinstance(v, bool):
            raise Untranslatable('bool constant in arithmetic')
        f = Fraction(v) if isinstance(v, int) else Fraction(repr(v))
        return '(%s # %d)' % (coq_z(f.numerator), f.denominator)

    def binop(self, op, a, b):
        if op in ('//', '%'):
            raise Untranslatable('integer division in rational arithmetic')
        return {'+': '(Qplus %s %s)', '-': '(Qminus %s %s)', '*': '(Qmult %s %s)', '/': '(Qdiv %s %s)'}[op] % (a, b)

    def neg(self, a):
        return '(Qopp %s)' % a

    def abs(self, a):
        return '(Qabs %s)' % a

    def cmp(self, op, a, b):
        return {'<': '(negb (Qle_bool %(b)s %(a)s))', '<=': '(Qle_bool %(a)s %(b)s)',
                '>': '(negb (Qle_bool %(a)s %(b)s))', '>=': '(Qle_bool %(b)s %(a)s)',
                '==': '(Qeq_bool %(a)s %(b)s)', '!=': '(negb (Qeq_bool %(a)s %(b)s))'}[op] % {'a': a, 'b': b}


class ZBackend:
    ty = 'Z'

    def const(self, v):
        if isinstance(v, bool) or not isinstance(v, int):
            raise Untranslatable('non-integer constant in integer arithmetic')
        return '(%d)%%Z' % v

    def binop(self, op, a, b):
        if op == '/':
            raise Untranslatable('true division in integer arithmetic')
        # Python's // and % on ints are floor division / modulo with the sign of the divisor, as Z.div / Z.modulo
        return {'+': '(Z.add %s %s)', '-': '(Z.sub %s %s)', '*': '(Z.mul %s %s)', '//': '(Z.div %s %s)',
                '%': '(Z.modulo %s %s)'}[op] % (a, b)

    def neg(self, a):
        return '(Z.opp %s)' % a

    def abs(self, a):
        return '(Z.abs %s)' % a

    def cmp(self, op, a, b):
        return {'<': '(Z.ltb %(a)s %(b)s)', '<=': '(Z.leb %(a)s %(b)s)', '>': '(Z.ltb %(b)s %(a)s)',
                '>=': '(Z.leb %(b)s %(a)s)', '==': '(Z.eqb %(a)s %(b)s)', '!=': '(negb (Z.eqb %(a)s %(b)s))'}[op] % {'a': a, 'b': b}


class FloatBackend:
    ty = 'float'

    def const(self, v):
        if isinstance(v, bool):
            raise Untranslatable('bool constant in arithmetic')
        return '(%s)%%float' % float(v).hex()

    def binop(self, op, a, b):
        if op in ('//', '%'):
            raise Untranslatable('integer division in float arithmetic')
        return {'+': '(PrimFloat.add %s %s)', '-': '(PrimFloat.sub %s %s)', '*': '(PrimFloat.mul %s %s)',
                '/': '(PrimFloat.div %s %s)'}[op] % (a, b)

    def neg(self, a):
        return '(PrimFloat.opp %s)' % a

    def abs(self, a):
        return '(PrimFloat.abs %s)' % a

    def cmp(self, op, a, b):
        return {'<': '(PrimFloat.ltb %(a)s %(b)s)', '<=': '(PrimFloat.leb %(a)s %(b)s)',
                '>': '(PrimFloat.ltb %(b)s %(a)s)', '>=': '(PrimFloat.leb %(b)s %(a)s)',
                '==': '(PrimFloat.eqb %(a)s %(b)s)', '!=': '(negb (PrimFloat.eqb %(a)s %(b)s))'}[op] % {'a': a, 'b': b}


OPS = {ast.Add: '+', ast.Sub: '-', ast.Mult: '*', ast.Div: '/', ast.FloorDiv: '//', ast.Mod: '%'}
CMPS = {ast.Lt: '<', ast.LtE: '<=', ast.Gt: '>', ast.GtE: '>=', ast.Eq: '==', ast.NotEq: '!='}
NOOP_CALLS = ('warning_message', 'status_message', 'print')


class Sym:
    """calls   : {ast.unparse(expr) : coq name}  — atoms supplied as parameters
       be      : back end
       on_raise: how `raise` is rendered: function index -> coq term"""

    def __init__(self, be, atoms, on_raise=None, on_return=None):
        self.be, self.atoms = be, dict(atoms)
        self.on_raise = on_raise
        self.on_return = on_return or (lambda x: x)
        self.nraise = 0

    # ---- expressions
    def expr(self, e, env):
        key = ast.unparse(e)
        if key in self.atoms:
            return self.atoms[key]
        if isinstance(e, ast.Constant):
            need(isinstance(e.value, (int, float)) and not isinstance(e.value, bool), 'non-numeric constant %r' % (e.value,))
            return self.be.const(e.value)
        if isinstance(e, ast.Name):
            need(e.id in env, 'unknown name %s' % e.id)
            return env[e.id]
        if isinstance(e, ast.UnaryOp) and isinstance(e.op, ast.USub):
            if isinstance(e.operand, ast.Constant):
                return self.be.const(-e.operand.value)
            return self.be.neg(self.expr(e.operand, env))
        if isinstance(e, ast.BinOp):
            if isinstance(e.op, ast.Pow):
                need(isinstance(e.right, ast.Constant) and e.right.value == 2, 'power other than **2')
                a = self.expr(e.left, env)
                return self.be.binop('*', a, a)
            need(type(e.op) in OPS, 'operator %s' % type(e.op).__name__)
            return self.be.binop(OPS[type(e.op)], self.expr(e.left, env), self.expr(e.right, env))
        if isinstance(e, ast.Call) and isinstance(e.func, ast.Name) and e.func.id == 'abs' and len(e.args) == 1:
            return self.be.abs(self.expr(e.args[0], env))
        if isinstance(e, ast.Call) and isinstance(e.func, ast.Name) and e.func.id == 'float' and len(e.args) == 1:
            return self.expr(e.args[0], env)
        raise Untranslatable('expression %s' % key[:60])

    def test(self, t, env):
        if ast.unparse(t) in self.atoms:
            return self.atoms[ast.unparse(t)]
        if isinstance(t, ast.BoolOp):
            parts = [self.test(v, env) for v in t.values]
            op = 'andb' if isinstance(t.op, ast.And) else 'orb'
            out = parts[0]
            for p in parts[1:]:
                out = '(%s %s %s)' % (op, out, p)
            return out
        if isinstance(t, ast.UnaryOp) and isinstance(t.op, ast.Not):
            return '(negb %s)' % self.test(t.operand, env)
        if isinstance(t, ast.Compare):
            need(len(t.ops) == 1 and type(t.ops[0]) in CMPS, 'comparison shape')
            return self.be.cmp(CMPS[type(t.ops[0])], self.expr(t.left, env), self.expr(t.comparators[0], env))
        key = ast.unparse(t)
        if key in self.atoms:
            return self.atoms[key]
        raise Untranslatable('test %s' % key[:60])

    # ---- statements
    def block(self, stmts, env, depth=0):
        need(depth < 60, 'block too deep')
        if not stmts:
            raise Untranslatable('control falls off the end of the block')
        s, rest = stmts[0], stmts[1:]
        if isinstance(s, ast.Pass):
            return self.block(rest, env, depth)
        if isinstance(s, ast.Expr):
            if isinstance(s.value, ast.Constant) and isinstance(s.value.value, str):
                return self.block(rest, env, depth)
            if isinstance(s.value, ast.Call) and getattr(s.value.func, 'id', None) in NOOP_CALLS:
                return self.block(rest, env, depth)
            raise Untranslatable('expression statement %s' % ast.unparse(s)[:60])
        if isinstance(s, ast.Return):
            need(s.value is not None, 'bare return')
            return self.on_return(self.expr(s.value, env))
        if isinstance(s, ast.Raise):
            need(self.on_raise is not None, 'raise not allowed here')
            self.nraise += 1
            return self.on_raise(self.nraise)
        if isinstance(s, ast.Assign):
            need(len(s.targets) == 1 and isinstance(s.targets[0], ast.Name), 'assignment target')
            nm = s.targets[0].id
            v = self.expr(s.value, env)
            cv = 'v_%s%d' % (nm, depth)
            env2 = dict(env)
            env2[nm] = cv
            return '(let %s := %s in\n %s)' % (cv, v, self.block(rest, env2, depth + 1))
        if isinstance(s, ast.AugAssign):
            need(isinstance(s.target, ast.Name) and type(s.op) in OPS and s.target.id in env, 'augmented assignment')
            nm = s.target.id
            v = self.be.binop(OPS[type(s.op)], env[nm], self.expr(s.value, env))
            cv = 'v_%s%d' % (nm, depth)
            env2 = dict(env)
            env2[nm] = cv
            return '(let %s := %s in\n %s)' % (cv, v, self.block(rest, env2, depth + 1))
        if isinstance(s, ast.If):
            c = self.test(s.test, env)
            if c == 'false':
                return self.block(list(s.orelse) + rest, env, depth + 1)
            if c == 'true':
                return self.block(list(s.body) + rest, env, depth + 1)
            a = self.block(list(s.body) + rest, env, depth + 1)
            b = self.block(list(s.orelse) + rest, env, depth + 1)
            return '(if %s then %s\n else %s)' % (c, a, b)
        raise Untranslatable('statement %s' % type(s).__name__)

    def function(self, func, env=None):
        return self.block(strip_doc(list(func.body)), dict(env or {}))

    def block_result(self, stmts, env, result_var):
        """translate a statement list and return the final value of result_var"""
        ret = ast.Return(value=ast.Name(id=result_var, ctx=ast.Load()))
        return self.block(list(stmts) + [ret], dict(env))
