"""C12 — reduced alphabets: correspondence cases + search."""
from harness.util import *
from harness import gen_seq
from runner import Case, CaseSet

ID = 'C12'
OBLIGATIONS = ['Props/C12.v', 'Props/Tie/alphabets_tie.v', 'Props/Tie/minipy_alphabet_tie.v']
RULE = ('predefined: every size 0..25 x (the 20 residues as one word, plus random sequences); user alphabets: '
        'random total / partial / invalid-value / non-dict; non-trivial = distinct (size|alphabet, sequence) with an '
        'accepted alphabet and a sequence of >= 2 distinct residues')
TRUSTED = ['Spec/Alphabets.v: documented partitions transcribed from the reduce_alphabet docstring']
ASSUMPTIONS = ['alphabetSize is passed as an int; userAlphabet keys/values that are not printable ASCII strings are '
               'canonicalised to "?" (never an amino-acid letter)']

IMPORTS = ('From Coq Require Import List ZArith String.\n'
           'From LC Require Import Core.Residue Model.Alphabets Gen.GAlphabets.\n'
           'Import ListNotations. Local Open Scope Z_scope. Local Open Scope string_scope.')
CTYPE = 'Z * ualpha * list aa * option (list aa * list aa)'
CHECKER = 'check_c12 GAlphabets.allowed_sizes GAlphabets.reduce GAlphabets.alphabet'


def _tok(x):
    if isinstance(x, str) and all(32 <= ord(c) < 127 for c in x) and '"' not in x:
        return x
    return '?'


_OBJ = {}


def _run(seq, size, ua):
    """one object per sequence for the whole run (all cases run in this process): a memo kept on the object must not leak
    between alphabets"""
    from localcider.sequenceParameters import SequenceParameters
    o = _OBJ.get(seq)
    if o is None:
        o = _OBJ[seq] = SequenceParameters(seq)
    st, val = call(o.get_reduced_alphabet_sequence, size, ua)
    if st == 'ok' and isinstance(val, (tuple, list)) and len(val) == 2 and isinstance(val[1], list):
        keep = (val[0], list(val[1]))
        del val[1][:]            # a caller may edit the list it was handed; no later call may notice (all cases run in one process)
        val = keep
    return st, val


def _case(seq, size, ua):
    st, val = _run(seq, size, ua)
    if isinstance(ua, dict):
        cua = 'UNone' if len(ua) == 0 else '(UDict %s)' % clist(
            '(%s, %s)' % (cstr(_tok(k)), cstr(_tok(v))) for k, v in ua.items())
    elif ua is None:
        cua, ua = 'UNone', {}
    else:
        cua = 'UNotDict' if len(ua) > 0 else 'UNone'
    descr = {'sequence': seq, 'alphabetSize': size, 'userAlphabet': ua if isinstance(ua, dict) else repr(ua),
             'impl': [st, val if st != 'ok' else [val[0], list(val[1])]]}
    if st == 'ok':
        try:
            r = '(Some (%s, %s))' % (cseq(val[0]), cseq(''.join(val[1])))
        except Exception:
            return None, descr          # output is not a word over the 20 letters
    elif st == 'rejected':
        r = 'None'
    else:
        return None, descr
    coq = '(%s, %s, %s, %s)' % (cz(size), cua, cseq(seq), r)
    nontriv = st == 'ok' and len(set(seq)) >= 2
    return Case(coq, descr, key=(size, cua, seq), nontrivial=nontriv), descr


def build(ctx):
    rng = ctx.rng
    cases = []
    ctx.direct_failures = []

    def add(seq, size, ua):
        c, d = _case(seq, size, ua)
        if c is None:
            ctx.direct_failures.append(d)
        else:
            cases.append(c)

    seqs = gen_seq.random_classes(rng, ctx.pick(60, 400), 1, 80)
    for size in range(0, 26):
        add(AAS, size, {})
        for s in rng.sample(seqs, ctx.pick(4, 30)):
            add(s, size, {})
    for size in (-1, -20, 100, 21, 7):
        add(AAS, size, {})
    # user alphabets
    for i in range(ctx.pick(60, 600)):
        kind = i % 6
        ua = {a: rng.choice(AAS[:rng.randint(2, 20)]) for a in AAS}
        if kind == 1:
            del ua[rng.choice(AAS)]
        elif kind == 2:
            ua[rng.choice(AAS)] = rng.choice(['X', 'a', 'AB', '', '1', 'B', 'Z', 'e'])
        elif kind == 3:
            ua = {a: ua[a] for a in rng.sample(AAS, rng.randint(1, 19))}
        elif kind == 4:
            ua[rng.choice(['X', 'a', 'ALA'])] = 'A'          # extra keys are harmless
            if rng.random() < 0.5:                           # ... unless a residue is mapped onto one of them
                extra = rng.choice(['X', '-', 'b', 'ALA'])
                ua[extra] = rng.choice([extra, 'A'])
                ua[rng.choice(AAS)] = extra
        s = rng.choice(seqs[:8])          # few sequences: each object sees many different user alphabets
        add(s, rng.choice([2, 5, 20, 7]), ua)
    for ua in ([('A', 'A')], 'ACDE', ['A'], (), [], ''):
        add(rng.choice(seqs), 4, ua)
    return [CaseSet('C12', IMPORTS, CTYPE, CHECKER, cases)]


def search(ctx, broken, cases):
    """Direct evaluation of the property on the implementation: exhaustive 12 x 20 table
    against the documented groups (read from Spec through a tiny Python copy of the
    docstring table), plus the laws on the generated sequences."""
    from localcider.sequenceParameters import SequenceParameters
    doc = {2: 'LVIMCAGSTPFYW EDNQKRH', 3: 'LVIMCAGSTP FYW EDNQKRH', 4: 'LVIMC AGSTP FYW EDNQKRH',
           5: 'LVIMC ASGTP FYW EDNQ KRH', 6: 'LVIM ASGT PHC FYW EDNQ KR',
           8: 'LVIMC AG ST P FYW EDNQ KR H', 10: 'LVIM C A G ST P FYW EDNQ KR H',
           11: 'LVIM C A G ST P FYW ED NQ KR H', 12: 'LVIM C A G ST P FY W EQ DN KR H',
           15: 'LVIM C A G S T P FY W E Q D N KR H', 18: 'LM VI C A G S T P F Y W E D N Q K R H',
           20: ' '.join(AAS)}
    for k in range(0, 26):
        st, val = _run(AAS, k, {})
        if k not in doc:
            if st != 'rejected':
                return {'kind': 'size-not-rejected', 'alphabetSize': k, 'impl': [st, repr(val)]}
            continue
        if st != 'ok':
            return {'kind': 'documented-size-rejected', 'alphabetSize': k, 'impl': [st, val]}
        red, alph = val
        groups = doc[k].split()
        if len(red) != 20:
            return {'kind': 'length-changed', 'alphabetSize': k, 'impl': red}
        reps = set()
        for g in groups:
            img = {red[AAS.index(r)] for r in g}
            if len(img) != 1 or not (img <= set(g)):
                return {'kind': 'group-not-mapped-to-own-member', 'alphabetSize': k, 'group': g,
                        'images': sorted(img), 'replay_sequence': AAS}
            reps |= img
        if sorted(alph) != sorted(reps):
            return {'kind': 'alphabet-is-not-the-representatives', 'alphabetSize': k, 'alphabet': list(alph),
                    'representatives': sorted(reps)}
        for c in cases[:200]:
            s = c.descr['sequence']
            a, b = s[:len(s) // 2], s[len(s) // 2:]
            ra, rb, rs = (_run(x, k, {}) for x in (a or 'A', b or 'A', s))
            if rs[0] == 'ok' and ra[0] == 'ok' and rb[0] == 'ok' and a and b:
                if ra[1][0] + rb[1][0] != rs[1][0]:
                    return {'kind': 'concatenation-law', 'alphabetSize': k, 'sequence': s}
                if _run(rs[1][0], k, {})[1][0] != rs[1][0]:
                    return {'kind': 'idempotence-law', 'alphabetSize': k, 'sequence': s}
    return None


def replay(ctx, obj):
    c = obj.get('case', obj)
    if 'sequence' in c:
        ua = c.get('userAlphabet', {})
        return {'now': _run(c['sequence'], c['alphabetSize'], ua if isinstance(ua, dict) else {}), 'stored': c}
    return obj

LEVEL_TEXT = ('Proof: the residue->representative cascade regenerated from the source is proved (exhaustively, 12 sizes x 20 '
              'residues, kernel evaluation) to be a valid reduction of the documented partition; the homomorphism laws, '
              'rejection of other sizes and the user-alphabet acceptance rule are theorems for all sequences/dicts; the '
              'glue (argument handling, join, alphabet list) is tied by in-Coq differential correspondence.')
LEVEL_NOTE_MINIPY = ' Whole-function semantic ties (source translated to Core/MiniPy terms on every run, proved equal to the model for all inputs): the user-alphabet block of reduce_alphabet.'
LEVEL_NOTE = ('Trusts: Coq kernel; py2coq translator for reduce_alphabet; Spec/Alphabets.v transcription of the docstring '
              'table; harness canonicalisation of dict arguments. Theorems closed under the global context (no axioms).')
TECHNIQUE = 'Coq proof (finite exhaustive vm_compute + list induction) over translator-generated cascade; differential correspondence'
