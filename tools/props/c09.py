"""C09 — pH-dependent charge (Henderson–Hasselbalch) and the isoelectric point."""
from harness.util import *
from harness import gen_seq
from runner import Case, CaseSet

ID = 'C09'
OBLIGATIONS = ['Props/C09.v', 'Props/Tie/titration_tie.v', 'Props/Tie/tables_tie.v', 'Props/Tie/minipy_pi_tie.v', 'Props/Tie/minipy_titration_tie.v']
RULE = ('(getters are asked again, after get_isoelectric_point, at every pH its loop visited) sequences: random classes (N 1..60), only-basic, only-acidic, only-R, no-titratable, the 20 singletons, and every '
        'multiset of titratable residues of size <= 3 (thorough 4); pH grid {0, 14, each pKa, pKa +- 1, random}; getters get_FCR / '
        'get_NCPR / get_mean_net_charge / get_fraction_expanding with pH, get_isoelectric_point (its charge_at_pH calls are recorded '
        'and the loop replayed in Coq); pH in {-1e-9, -1, 14+1e-9, 15, 1e9} must be rejected; non-trivial = distinct sequence with a '
        'titratable residue')
TRUSTED = ['float glue: the Henderson–Hasselbalch sums are evaluated in Python from the titratable counts (which Coq compares with '
           'the model\'s counts) and compared with the getters (1e-9)',
           'run-time wrapper around Sequence.charge_at_pH recording (pH, charge) of each call made by isoelectric_point']
ASSUMPTIONS = ['never-raises theorem: the float evaluation of charge_at_pH(pH, normalize=True) is within 1/1000 of the exact '
               'Henderson-Hasselbalch mean charge per titratable residue at every pH the loop visits (measured on every recorded '
               'call against 50-digit decimal arithmetic: observed distance < 1e-12; not proved about numpy)']
LEVEL_TEXT = ('Proof (over R): NCPR(pH) is non-increasing in pH, |NCPR(pH)| <= FCR(pH) <= titratable/N, FER = FCR + proline fraction, '
              'pH outside [0,14] rejected; (over Q, for EVERY charge oracle, hence for the code\'s float-valued one) the isoelectric '
              'loop returns only a pH whose normalised charge is within 0.02 of 0, makes at most 221 evaluations, can only fail through '
              'its escape clause, and returns 7.0 when nothing titrates; NEVER RAISES: for every oracle that is approximately '
              'non-increasing, locally 1-Lipschitz, >= -0.011 at pH <= 1 and <= 0.011 at pH >= 15 the loop returns within 28 evaluations '
              '(one escape at most), and (over R) every oracle within 1/1000 of the exact normalised charge of ANY sequence with a '
              'titratable residue is such an oracle, and the returned pH neutralises the exact charge to 0.021. Tie: residue lists/signs/pKa/constants/loop '
              'shape from source; the recorded charge calls of real runs are replayed through the Coq loop bit-exactly.')
LEVEL_NOTE_MINIPY = ' Whole-function semantic ties (source translated to Core/MiniPy terms on every run, proved equal to the model for all inputs): isoelectric_point (every oracle; with pi_never_raises: the translated code never raises).'
LEVEL_NOTE = 'R theorems use the Coq Reals axioms. 10^x evaluation is float glue; never-raises assumes the float charge is within 1e-3 of the exact one (measured per call).'
TECHNIQUE = 'Coq proof (monotonicity/bounds over R; loop invariants over Q for all oracles) + oracle-replay correspondence'

IMPORTS = ('From Coq Require Import List ZArith QArith String.\n'
           'From LC Require Import Core.Residue Model.Titration.\n'
           'Import ListNotations. Local Open Scope Z_scope. Local Open Scope string_scope.')
PKA = {'C': 8.5, 'Y': 10.1, 'H': 6.5, 'E': 4.1, 'D': 3.9, 'K': 10.0, 'R': 12.5}
ORDER = 'KRHEDYC'


def glue(seq, pH):
    pos = sum(1 / (1 + 10 ** (pH - PKA[c])) for c in seq if c in 'KRH')
    neg = sum(1 / (1 + 10 ** (PKA[c] - pH)) for c in seq if c in 'EDYC')
    N = len(seq)
    return ((pos + neg) / N, (pos - neg) / N, abs(pos - neg) / N, (pos + neg + seq.count('P')) / N)


def exact_ncharge(seq, pH):
    """mean charge per titratable residue in 50-digit decimal arithmetic (the oracle the never-raises theorem refers to)"""
    import decimal
    D = decimal.Decimal
    with decimal.localcontext() as cx:
        cx.prec = 50
        tot, n = D(0), 0
        for c in seq:
            if c in 'KRH':
                tot += 1 / (1 + D(10) ** (D(repr(pH)) - D(repr(PKA[c]))))
                n += 1
            elif c in 'EDYC':
                tot -= 1 / (1 + D(10) ** (D(repr(PKA[c])) - D(repr(pH))))
                n += 1
        return float(tot / n) if n else 0.0


def _one(seq):
    import localcider.backend.sequence as S
    o = SP(seq)
    grid = sorted({0.0, 14.0, 7.4, 7.0, 3.5, 10.5, 1.75, 5.25, 8.75, 12.25} | {v + d for v in PKA.values() for d in (-1, 0, 1) if 0 <= v + d <= 14})
    problems = []
    prev = None
    for pH in grid:
        st, v = call(lambda: (fnum(o.get_FCR(pH)), fnum(o.get_NCPR(pH)), fnum(o.get_mean_net_charge(pH)), fnum(o.get_fraction_expanding(pH))))
        if st != 'ok':
            problems.append({'pH': pH, 'impl': [st, v]})
            continue
        e = glue(seq, pH)
        if any(abs(a - b) > 1e-9 for a, b in zip(v, e)):
            problems.append({'pH': pH, 'why': 'differs from Henderson-Hasselbalch sums', 'impl': v, 'expected': e})
        ntit = sum(c in ORDER for c in seq) / len(seq)
        if not (abs(v[1]) <= v[0] + 1e-12 <= ntit + 1e-9) or (prev is not None and v[1] > prev + 1e-12):
            problems.append({'pH': pH, 'why': 'bounds / monotonicity', 'impl': v, 'previous_NCPR': prev})
        prev = v[1]
    # the same pH handed over as another number type (int, numpy int, numpy float): the value must not depend on the type
    import numpy as np
    for pH in (0, 3, 7, 9, 10, 14, np.int64(4), np.int64(12), np.float64(6.5)):
        st, v = call(lambda: (fnum(o.get_FCR(pH)), fnum(o.get_NCPR(pH)), fnum(o.get_mean_net_charge(pH)), fnum(o.get_fraction_expanding(pH))))
        e = glue(seq, float(pH))
        if st != 'ok' or any(abs(a - b) > 1e-9 for a, b in zip(v, e)):
            problems.append({'pH': repr(pH), 'why': 'pH given as %s: differs from Henderson-Hasselbalch sums' % type(pH).__name__,
                             'impl': [st, v], 'expected': e})
            break
    for bad in (-1e-9, -1, 14 + 1e-9, 15, 1e9):
        for g in (o.get_FCR, o.get_NCPR, o.get_mean_net_charge, o.get_fraction_expanding):
            if call(g, bad)[0] != 'rejected':
                problems.append({'pH': bad, 'why': 'pH outside [0,14] answered', 'getter': g.__name__})
    calls = []
    orig = S.Sequence.charge_at_pH

    def rec(self, pH=7.4, mode='', normalize=False):
        r = orig(self, pH, mode, normalize)
        if normalize:
            calls.append((float(pH), float(r)))
        return r
    S.Sequence.charge_at_pH = rec
    try:
        st, pi = call(o.get_isoelectric_point, seconds=30)
    finally:
        S.Sequence.charge_at_pH = orig
    if st == 'ok':
        pi = fnum(pi)
        c = call(lambda: fnum(o.SeqObj.charge_at_pH(pi, normalize=True)))
        if c[0] != 'ok' or abs(c[1]) > 0.02:
            problems.append({'why': 'charge at the returned pI not within 0.02', 'pI': pi, 'charge': c})
        if not any(ch in ORDER for ch in seq) and pi != 7.0:
            problems.append({'why': 'no titratable residue but pI != 7.0', 'pI': pi})
    else:
        problems.append({'why': 'get_isoelectric_point did not return', 'impl': [st, pi]})
    # the pH values the bisection visited, asked again through the getters (a memo shared with the loop must not leak)
    for x, _ in calls:
        if 0 <= x <= 14:
            st2, v2 = call(lambda: (fnum(o.get_FCR(x)), fnum(o.get_NCPR(x)), fnum(o.get_mean_net_charge(x)), fnum(o.get_fraction_expanding(x))))
            e2 = glue(seq, x)
            if st2 != 'ok' or any(abs(a - b) > 1e-9 for a, b in zip(v2, e2)):
                problems.append({'pH': x, 'why': 'getter after get_isoelectric_point differs from Henderson-Hasselbalch sums at a pH the loop visited',
                                 'impl': [st2, v2], 'expected': e2})
                break
    if len(calls) > 28:
        problems.append({'why': 'more than 28 charge evaluations (theorem C09_pI_never_raises bounds them by 28)', 'calls': len(calls)})
    worst = 0.0
    for x, c in calls:
        e = exact_ncharge(seq, x)
        worst = max(worst, abs(c - e))
        if abs(c - e) > 1e-9:
            problems.append({'why': 'float charge_at_pH(normalize=True) differs from the exact Henderson-Hasselbalch value '
                                    '(hypothesis of C09_pI_never_raises)', 'pH': x, 'impl': c, 'exact': e})
            break
    counts = [seq.count(c) for c in ORDER] + [seq.count('P'), len(seq)]
    return counts, calls, (st, pi), problems


def multisets(k):
    import itertools
    for n in range(1, k + 1):
        for m in itertools.combinations_with_replacement(ORDER, n):
            yield ''.join(m)


def build(ctx):
    import harness.util as _U
    _U.PRELUDE = 3      # every third object (by crc32 of its sequence) answers after a query history (util.prelude)
    _U.DECORATE = 4     # every fourth sequence is handed to the constructor in another accepted spelling (util.decorate)
    _U.DERIVED = 5      # every fifth object is the all-positions-frozen shuffle of the constructed one (same sequence, sampler's code path)
    rng = ctx.rng
    seqs = gen_seq.random_classes(rng, ctx.pick(150, 800), 1, 60) + list(AAS)
    seqs += ['R' * n for n in (1, 5, 30)] + ['K' * 9, 'D' * 7, 'E', 'RRRRG', 'GGSSAA', 'H', 'YC', 'KRHKRH', 'DEDEYC']
    seqs += [m + 'G' * rng.randint(0, 3) for m in multisets(ctx.pick(3, 4))]
    res = pmap(lambda s: call(_one, s, seconds=120), seqs, chunk=16) if False else pmap(_wrap, seqs, chunk=16)
    cases = []
    ctx.direct_failures = []
    for s, (st, v) in zip(seqs, res):
        if st != 'ok':
            ctx.direct_failures.append({'sequence': s, 'impl': [st, v]})
            continue
        counts, calls, (pst, pi), problems = v
        d = {'sequence': s, 'counts_KRHEDYC_P_N': counts, 'pI': [pst, pi], 'charge_calls': len(calls)}
        if problems:
            d['problems'] = problems[:3]
            ctx.direct_failures.append(d)
            continue
        coq = '(%s, %s, %s, %s)' % (cstr(s), clist(cz(x) for x in counts), clist('(%s, %s)' % (cq(a), cq(b)) for a, b in calls),
                                    '(Some %s)' % cq(pi) if pst == 'ok' else 'None')
        cases.append(Case(coq, d, key=s, nontrivial=any(c in ORDER for c in s)))
    return [CaseSet('C09', IMPORTS, 'string * list Z * list (Q * Q) * option Q', 'check_c09', cases, shard=200)]


def _wrap(s):
    return call(_one, s, seconds=120)


def search(ctx, broken, cases):
    return None


def replay(ctx, obj):
    c = obj.get('case', obj)
    if 'sequence' in c:
        return {'sequence': c['sequence'], 'now': _wrap(c['sequence'])}
    return obj
