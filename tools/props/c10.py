"""C10 — sliding-window profiles: all five getters, every window 1..N+3."""
from harness.util import *
from harness import gen_seq
from runner import Case, CaseSet
from props.c06 import canon_group

ID = 'C10'
OBLIGATIONS = ['Props/C10.v', 'Props/Tie/windows_tie.v', 'Props/Tie/charge_tie.v', 'Props/Tie/tables_tie.v', 'Props/Tie/minipy_windows_tie.v', 'Props/Tie/minipy_hydro_tie.v', 'Props/Tie/minipy_density_tie.v', 'Props/Tie/minipy_lincomp_tie.v']
RULE = ('sequences: +/-/0 patterns of length 1..6 (sampled) and random class sequences (N <= 40 quick, 120 thorough) x every '
        'window w in 1..N+3 for NCPR/FCR/sigma/hydropathy; composition with default groups and random user groups (mixed '
        'case, string/list/tuple, one invalid) for sampled windows; non-trivial = distinct (sequence, window) with 2 <= w <= N')
TRUSTED = ['profile entries compared with tolerance 1e-9; numpy arrays canonicalised to lists of exact rationals']
ASSUMPTIONS = ['window sizes are positive ints (w = 0 or negative are outside the property)']
LEVEL_TEXT = ('Proof: flank formula = (floor((w-1)/2), floor(w/2)); profile length N; the statistic of the window starting at i '
              'sits at i+floor((w-1)/2); leading/trailing flanks are 0; w = N gives the whole-sequence parameter (NCPR, FCR, sigma, '
              'Uversky hydropathy, group fraction); delta is the mean squared deviation of the w=5,6 sigma profiles; w > N rejected '
              '— all for every sequence/window/statistic. Tie: guards, flank arithmetic and per-window formulas translated from '
              'the five source functions and proved equal to the model on complete grids; real getters compared in Coq.')
LEVEL_NOTE = 'Closed under the global context. Translator ties are bounded grids (N <= 40, w <= N+3), stated in the lemmas.'
LEVEL_NOTE_MINIPY = (' Whole-function ties (minipy_windows_tie.v): linearDistOfNCPR, linearDistOfFCR, linearDistOfSigma, linearDistOfHydropathy (minipy_hydro_tie.v), linearDenistyOfAAs (minipy_density_tie.v), linearCompositions (minipy_lincomp_tie.v: every group list, sanitised and stacked in order; the seven default groups) and __check_window_to_length are translated into Core/MiniPy.v terms on every run; '
                     'for every charge pattern and window >= 1 the translated code rejects exactly when the window is longer than the sequence and otherwise returns the position row and flank zeros + one value per window.')
TECHNIQUE = 'Coq proof (list/nth/div-mod arithmetic) + translator tie on grids + in-Coq differential correspondence'

IMPORTS = ('From Coq Require Import List ZArith QArith String.\n'
           'From LC Require Import Core.Residue Model.Windows.\n'
           'Import ListNotations. Local Open Scope string_scope.')


def _rows(arr):
    import numpy as np
    a = np.asarray(arr, dtype=float)
    return [[float(x) for x in row] for row in a]


def _four(args):
    seq, w = args
    o = SP(seq)
    out = []
    for g in (o.get_linear_NCPR, o.get_linear_FCR, o.get_linear_sigma, o.get_linear_hydropathy):
        st, v = call(g, w)
        if st == 'ok':
            try:
                r = _rows(v)
                assert len(r) == 2
                out.append(('ok', r))
            except Exception:
                out.append(('bad-shape', repr(v)[:200]))
        else:
            out.append((st, v))
    return out


def _delta_from_profiles(seq):
    """get_delta() against the mean-squared deviation of the implementation's own sigma profiles (w = 5, 6) from the global sigma"""
    def f():
        o = SP(seq)
        n = len(seq)
        q = [1 if c in 'KR' else -1 if c in 'DE' else 0 for c in seq]
        p, m = q.count(1), q.count(-1)
        sig = 0.0 if p + m == 0 else ((p - m) / n) ** 2 / ((p + m) / n)
        tot = 0.0
        for w in (5, 6):
            k = n - w + 1
            if k <= 0:
                continue
            prof = _rows(o.get_linear_sigma(w))[1]
            off = (w - 1) // 2
            tot += sum((prof[off + i] - sig) ** 2 for i in range(k)) / k
        return fnum(o.get_delta()), tot / 2
    return call(f)


def _comp(args):
    seq, w, grps = args
    o = SP(seq)
    st, v = call(lambda: o.get_linear_sequence_composition(w, grps) if grps is not None
                 else o.get_linear_sequence_composition(w))
    if st != 'ok':
        return (st, v)
    try:
        import numpy as np
        pos = [float(x) for x in np.asarray(v[0], dtype=float)]
        d = np.asarray(v[1], dtype=float)
        if d.ndim == 1:
            d = d.reshape(1, -1)
        return ('ok', (pos, [[float(x) for x in row] for row in d]))
    except Exception:
        return ('bad-shape', repr(v)[:200])


def qrow(r):
    return clist(cq(x) for x in r)


def build(ctx):
    import harness.util as _U
    _U.PRELUDE = 3      # every third object (by crc32 of its sequence) answers after a query history (util.prelude)
    _U.DECORATE = 4     # every fourth sequence is handed to the constructor in another accepted spelling (util.decorate)
    _U.DERIVED = 5      # every fifth object is the all-positions-frozen shuffle of the constructed one (same sequence, sampler's code path)
    rng = ctx.rng
    pats = list(gen_seq.patterns_upto(6))
    seqs = [gen_seq.spell(rng, p) for p in rng.sample(pats, ctx.pick(60, 300))]
    seqs += gen_seq.random_classes(rng, ctx.pick(40, 200), 1, ctx.pick(40, 120)) + ['A', 'K', 'EK']
    jobs = [(s, w) for s in seqs for w in range(1, len(s) + 4)]
    res = pmap(_four, jobs, chunk=16)
    cases = []
    ctx.direct_failures = []
    for (s, w), rows in zip(jobs, res):
        d = {'sequence': s, 'window': w, 'NCPR_FCR_sigma_hydropathy': [[st, 'array' if st == 'ok' else v] for st, v in rows]}
        if any(st not in ('ok', 'rejected') for st, _ in rows):
            d['detail'] = rows
            ctx.direct_failures.append(d)
            continue
        items = ['(Some (%s, %s))' % (qrow(v[0]), qrow(v[1])) if st == 'ok' else 'None' for st, v in rows]
        d['sample_row'] = rows[0][1][1][:12] if rows[0][0] == 'ok' else None
        cases.append(Case('(%s, %s, %s)' % (cstr(s), cnat(w), clist(items)), d, key=(s, w), nontrivial=2 <= w <= len(s)))
    # delta is the mean (w = 5, 6) of the mean-squared deviations of the sigma profile from the global sigma
    dseqs = [gen_seq.spell(rng, p) for p in pats if 5 <= len(p) <= 6][:: ctx.pick(3, 1)] + [x for x in seqs if len(x) >= 5]
    for x, (st, v) in zip(dseqs, pmap(_delta_from_profiles, dseqs, chunk=16)):
        if st != 'ok' or abs(v[0] - v[1]) > 1e-9:
            ctx.direct_failures.append({'sequence': x, 'why': 'get_delta() differs from the w = 5, 6 sigma-profile deviations', 'get_delta_vs_profiles': [st, v]})
    ctx.notes['delta_vs_profiles'] = len(dseqs)
    # compositions
    cjobs = []
    for s in seqs[:: ctx.pick(3, 2)]:
        for w in sorted({1, 2, len(s), len(s) + 1, rng.randint(1, len(s))}):
            cjobs.append((s, w, None))
            g = [''.join(rng.sample(AAS, rng.randint(1, 6))) for _ in range(rng.randint(1, 4))]
            g = [x.lower() if rng.random() < 0.3 else (list(x) if rng.random() < 0.5 else tuple(x)) for x in g]
            cjobs.append((s, w, g))
            if rng.random() < 0.3:
                cjobs.append((s, w, g + [['A', 'X']]))
    cres = pmap(_comp, cjobs, chunk=16)
    ccases = []
    for (s, w, g), (st, v) in zip(cjobs, cres):
        d = {'sequence': s, 'window': w, 'groups': repr(g), 'composition': [st, 'arrays' if st == 'ok' else v]}
        if st not in ('ok', 'rejected'):
            d['detail'] = v
            ctx.direct_failures.append(d)
            continue
        cg = clist(clist(cstr(x) for x in canon_group(x)) for x in (g or []))
        r = '(Some (%s, %s))' % (qrow(v[0]), clist(qrow(x) for x in v[1])) if st == 'ok' else 'None'
        ccases.append(Case('(%s, %s, %s, %s)' % (cstr(s), cnat(w), cg, r), d, key=(s, w, repr(g)),
                           nontrivial=2 <= w <= len(s)))
    return [CaseSet('C10', IMPORTS, 'string * nat * list (option (list Q * list Q))', 'check_c10', cases, shard=300),
            CaseSet('C10c', IMPORTS, 'string * nat * list (list string) * option (list Q * list (list Q))', 'check_c10c',
                    ccases, shard=150)]


def search(ctx, broken, cases):
    """placement / zero flanks / rejection / full-window identity evaluated on the implementation"""
    from fractions import Fraction
    for s, w in [(gen_seq.idp_like(ctx.rng, n), w) for n in (1, 2, 5, 6, 7, 12, 13) for w in range(1, n + 4)]:
        rows = _four((s, w))
        N = len(s)
        q = pat_of(s)
        for name, (st, v) in zip(['NCPR', 'FCR', 'sigma', 'hydropathy'], rows):
            if w > N:
                if st != 'rejected':
                    return {'kind': 'window-longer-than-sequence-answered', 'getter': name, 'sequence': s, 'window': w,
                            'result': [st, v]}
                continue
            if st != 'ok':
                return {'kind': 'valid-window-rejected', 'getter': name, 'sequence': s, 'window': w, 'result': [st, v]}
            pos, val = v
            if pos != [float(i) for i in range(1, N + 1)] or len(val) != N:
                return {'kind': 'positions-or-length', 'getter': name, 'sequence': s, 'window': w, 'row': v}
            lead, trail = (w - 1) // 2, w // 2
            if any(val[:lead]) or any(val[N - trail:]):
                return {'kind': 'flank-not-zero', 'getter': name, 'sequence': s, 'window': w, 'values': val}
            for i in range(N - w + 1):
                b = q[i:i + w]
                bp, bn = b.count(1), b.count(-1)
                e = {'NCPR': (bp - bn) / w, 'FCR': (bp + bn) / w,
                     'sigma': 0 if bp + bn == 0 else (bp - bn) ** 2 / (w * (bp + bn))}.get(name)
                if e is not None and abs(val[i + lead] - e) > 1e-9:
                    return {'kind': 'window-value-misplaced-or-wrong', 'getter': name, 'sequence': s, 'window': w,
                            'index': i + lead, 'value': val[i + lead], 'expected': e}
    return None


def replay_fixed(ctx, fnd):
    if fnd.get('id') == 'D7':
        w = fnd['witness']
        st, v = call(SP(w).get_linear_NCPR, len(w) + 1)
        if st != 'rejected':
            return {'call': 'get_linear_NCPR(N+1)', 'sequence': w, 'result': [st, repr(v)[:200]]}
    return None


def replay(ctx, obj):
    c = obj.get('case', obj)
    if 'window' in c:
        return {'sequence': c['sequence'], 'window': c['window'], 'now': _four((c['sequence'], c['window']))}
    return obj
