"""C08 — diagram-of-states region for every composition, realised as actual sequences."""
from harness.util import *
from harness import gen_seq
from runner import Case, CaseSet

ID = 'C08'
OBLIGATIONS = ['Props/C08.v', 'Props/Tie/region_tie.v', 'Props/Tie/charge_tie.v', 'Props/Tie/delta_formulas_tie.v', 'Props/Tie/minipy_forward_c08_tie.v']
RULE = ('every triple (n+, n-, N) with N <= B (quick 60: 39 710 triples are enumerated by the proof; the correspondence '
        'realises every triple with N <= 36 quick / 70 thorough as a sequence with random spelling and arrangement) plus '
        'boundary compositions FCR in {1/4, 7/20}, |NCPR| = 7/20 for N up to 400; non-trivial = distinct composition')
TRUSTED = ['Coq primitive floats (PrimFloat/Uint63 kernel primitives) as a model of CPython binary64 int->float, /, <, <=, abs']
ASSUMPTIONS = ['CPython float arithmetic is IEEE-754 binary64 round-to-nearest-even (as Coq PrimFloat)']
LEVEL_TEXT = ('Proof: the cascade regenerated from phasePlotRegion is (by conversion, all arguments) the modelled cascade; over '
              'exact rationals it equals the threshold spec for EVERY composition (unbounded, lia) hence total / never raises / '
              'composition-only; the bit-exact binary64 cascade equals the spec for every composition with N <= 200 (1.37M '
              'triples, kernel evaluation). get_phasePlotRegion() on real sequences equals the float model for all N <= 36.')
LEVEL_NOTE = ('No axioms besides Coq kernel primitives for floats/63-bit ints (listed by Print Assumptions). Float = spec is '
              'bounded (N <= 200, stated in the theorem).')
TECHNIQUE = 'Coq proof: translator tie by conversion, lia over thresholds, exhaustive PrimFloat kernel evaluation; in-Coq correspondence'

IMPORTS = ('From Coq Require Import List ZArith String.\n'
           'From LC Require Import Core.Residue Model.Region.\n'
           'Import ListNotations. Local Open Scope Z_scope. Local Open Scope string_scope.')


def _region(seq):
    return call(lambda: SP(seq).get_phasePlotRegion())


def spec(p, n, N):
    if 4 * (p + n) < N:
        return 1
    if 20 * (p + n) <= 7 * N:
        return 2
    if 20 * abs(p - n) < 7 * N:
        return 3
    return 5 if p > n else 4


def comps(ctx):
    out = list(gen_seq.compositions_upto(ctx.pick(36, 70)))
    for N in list(range(40, 401, 20)) + [100, 200, 300, 399, 397]:
        for k in {N // 4, N // 4 + 1, (7 * N) // 20, (7 * N) // 20 + 1, (7 * N + 19) // 20}:
            for p in {0, k // 2, k, max(0, k - 1)}:
                n = k - p
                if 0 <= n and p + n <= N:
                    out += [(p, n, N - p - n), (n, p, N - p - n)]
    return sorted(set(out))


def build(ctx):
    import harness.util as _U
    _U.PRELUDE = 3      # every third object (by crc32 of its sequence) answers after a query history (util.prelude)
    _U.DECORATE = 4     # every fourth sequence is handed to the constructor in another accepted spelling (util.decorate)
    _U.DERIVED = 5      # every fifth object is the all-positions-frozen shuffle of the constructed one (same sequence, sampler's code path)
    rng = ctx.rng
    cs = comps(ctx)
    seqs = [gen_seq.spell(rng, gen_seq.arrange(rng, c)) for c in cs]
    res = pmap(_region, seqs)
    cases = []
    ctx.direct_failures = []
    for c, s, (st, v) in zip(cs, seqs, res):
        d = {'composition': list(c), 'sequence': s, 'get_phasePlotRegion': [st, v]}
        if st == 'timeout' or (st == 'ok' and not isinstance(v, int)):
            ctx.direct_failures.append(d)
            continue
        cases.append(Case('(%s, %s)' % (cstr(s), cz(v if st == 'ok' else 0)), d, key=c, nontrivial=True))
    return [CaseSet('C08', IMPORTS, 'string * Z', 'check_c08', cases, shard=1500)]


def search(ctx, broken, cases):
    for c in cases:
        p, n, z = c.descr['composition']
        st, v = c.descr['get_phasePlotRegion']
        e = spec(p, n, p + n + z)
        if st != 'ok' or v != e:
            return {'kind': 'region-differs-from-thresholds', 'composition': [p, n, z], 'sequence': c.descr['sequence'],
                    'get_phasePlotRegion': [st, v], 'expected': e}
    return None


def replay(ctx, obj):
    c = obj.get('case', obj)
    p, n, z = c['composition']
    return {'sequence': c['sequence'], 'now': _region(c['sequence']), 'spec': spec(p, n, p + n + z), 'stored': c}
