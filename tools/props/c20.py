"""C20 — HTML rendering and palette histories."""
from harness.util import *
from harness import gen_seq
from runner import Case, CaseSet

ID = 'C20'
OBLIGATIONS = ['Props/C20.v', 'Props/Tie/html_tie.v', 'Props/Tie/minipy_html_tie.v']
RULE = ('sequences of lengths 1, 9, 10, 11, 49, 50, 51, 101 and random (<= 130) x histories of 1..5 palette updates '
        '(valid random; one key missing; one invalid colour; capitalised colour; extra keys; non-dict) the caller re-using and editing ONE dict object between calls, each followed by a '
        'rendering compared byte for byte; non-trivial = distinct (sequence, history) with >= 1 accepted update')
TRUSTED = ['palette dictionaries canonicalised to association lists of printable strings (other keys/values become "??")']
ASSUMPTIONS = ['colour names are compared case-sensitively (as the code does)']
LEVEL_TEXT = ('Proof: the accumulating loop equals header ++ one piece per residue ++ footer, each piece = optional blank (i mod 10 = 0) '
              '++ optional <br> (i mod 50 = 0) ++ span in the residue\'s palette colour; stripping tags and blanks recovers the sequence '
              '(for any palette without ">" in colour names, in particular after ANY update history); a dictionary is accepted iff it '
              'gives all 20 residues one of the 17 colours, becomes the palette when accepted, leaves it unchanged when rejected. '
              'Tie: fragments, block sizes, whitelist, default palette from source; byte-for-byte correspondence of renderings.')
LEVEL_NOTE_MINIPY = ' Whole-function semantic ties (source translated to Core/MiniPy terms on every run, proved equal to the model for all inputs): get_HTMLColorString and set_HTMLColorResiduePalette.'
LEVEL_NOTE = 'Closed under the global context. Trusts py2coq fingerprints of the loop shape, harness canonicalisation of dict arguments.'
TECHNIQUE = 'Coq proof (string/list-of-ascii induction, state-machine invariant over update histories) + in-Coq byte-exact correspondence'

IMPORTS = ('From Coq Require Import List String.\n'
           'From LC Require Import Core.Residue Model.Html.\n'
           'Import ListNotations. Local Open Scope string_scope.')
COLS = ['aqua', 'black', 'blue', 'fuchsia', 'gray', 'green', 'lime', 'maroon', 'navy', 'olive', 'orange', 'purple',
        'red', 'silver', 'teal', 'white', 'yellow']


def _tok(x):
    return x if isinstance(x, str) and all(32 <= ord(c) < 127 and c != '"' for c in x) else '??'


def updates(rng):
    kind = rng.randrange(7)
    d = {a: rng.choice(COLS) for a in AAS}
    if kind == 1:
        del d[rng.choice(AAS)]
    elif kind == 2:
        d[rng.choice(AAS)] = rng.choice(['pink', 'cyan', '', 'Red ', '#ff0000', 'grey'])
    elif kind == 3:
        d[rng.choice(AAS)] = rng.choice(COLS).capitalize()
    elif kind == 4:
        d['X'] = 'red'
        d['a'] = 'pink'
    elif kind == 5:
        return rng.choice([[('A', 'red')], 'ACDEFGHIKLMNPQRSTVWY', None, 7])
    return d


def _hist(args):
    seq, ups = args

    def f():
        import copy
        o = SP(seq)
        out = [o.get_HTMLColorString()]
        shared = None            # the caller keeps ONE dict object and edits it in place between calls
        for d in ups:
            if isinstance(d, dict):
                if shared is None:
                    shared = dict(d)
                else:
                    shared.clear()
                    shared.update(d)
                arg = shared
            else:
                arg = d
            st, _ = call(o.set_HTMLColorResiduePalette, arg)
            st_r, html = call(o.get_HTMLColorString)
            out.append((st == 'ok', st if st_r == 'ok' else 'render-' + st_r, html if st_r == 'ok' else ''))
        # the caller's later edits of its own dict must not reach the object either
        if shared is not None:
            before = o.get_HTMLColorString()
            shared.clear()
            if call(o.get_HTMLColorString) != ('ok', before):
                out.append((False, 'aliased-caller-dict', ''))
        return out
    return call(f, seconds=60)


def build(ctx):
    rng = ctx.rng
    seqs = [gen_seq.uniform(rng, n) for n in (1, 9, 10, 11, 49, 50, 51, 101)] + gen_seq.random_classes(rng, ctx.pick(60, 400), 1, 130)
    jobs = [(s, [updates(rng) for _ in range(rng.randint(1, 5))]) for s in seqs]
    res = pmap(_hist, jobs, chunk=8)
    cases = []
    ctx.direct_failures = []
    for (s, ups), (st, v) in zip(jobs, res):
        d = {'sequence': s, 'updates': [u if isinstance(u, dict) else repr(u) for u in ups],
             'impl': [st, v if st != 'ok' else [v[0][:120]] + [[a, b, h[:80]] for a, b, h in v[1:]]]}
        if st != 'ok' or any(b == 'timeout' or b.startswith('render-') or b == 'aliased-caller-dict' for _, b, _ in v[1:]):
            ctx.direct_failures.append(d)
            continue
        try:
            hs = []
            for u, (acc, _, html) in zip(ups, v[1:]):
                items = [( _tok(k), _tok(c)) for k, c in u.items()] if isinstance(u, dict) else [('??', '??')]
                hs.append('(%s, %s, %s)' % (clist('(%s, %s)' % (cstr(k), cstr(c)) for k, c in items), cbool(acc), cstr(html)))
            coq = '(%s, %s, %s)' % (cstr(s), cstr(v[0]), clist(hs))
        except Exception:
            ctx.direct_failures.append(d)
            continue
        cases.append(Case(coq, d, key=(s, repr(ups)), nontrivial=any(a for a, _, _ in v[1:])))
    return [CaseSet('C20', IMPORTS, 'string * string * list (list (string * string) * bool * string)', 'check_c20', cases, shard=40)]


def search(ctx, broken, cases):
    import re
    for s, ups in [(gen_seq.uniform(ctx.rng, n), [updates(ctx.rng) for _ in range(3)]) for n in (1, 10, 11, 50, 51, 120)]:
        st, v = _hist((s, ups))
        if st != 'ok':
            return {'kind': 'rendering-fails', 'sequence': s, 'impl': [st, v]}
        pal = None
        for i, html in enumerate([v[0]] + [h for _, _, h in v[1:]]):
            if re.sub(r'<[^>]*>| ', '', html) != s:
                return {'kind': 'stripping-markup-does-not-recover-sequence', 'sequence': s, 'html': html}
            spans = re.findall(r'<span style="color:([a-z]*)">([A-Z])</span>', html)
            if [r for _, r in spans] != list(s):
                return {'kind': 'spans-not-one-per-residue-in-order', 'sequence': s, 'html': html}
            body = html[len('<p style="font-family:Courier;">'):]
            toks = re.findall(r'( ?)((?:<br>)?)<span style="color:[a-z]*">[A-Z]</span>', body)
            for k, (sp, br) in enumerate(toks):
                if (sp == ' ') != (k % 10 == 0) or (br == '<br>') != (k % 50 == 0):
                    return {'kind': 'block-spacing', 'sequence': s, 'residue_index': k, 'html': html}
            if i > 0:
                u, (acc, _, _) = ups[i - 1], v[i]
                good = isinstance(u, dict) and all(a in u and u[a] in COLS for a in AAS)
                if acc != good:
                    return {'kind': 'palette-acceptance', 'dictionary': repr(u), 'accepted': acc, 'should_accept': good}
                if acc:
                    pal = u
                if pal is not None and [c for c, _ in spans] != [pal[r] for r in s]:
                    return {'kind': 'span-colour-not-palette', 'sequence': s, 'html': html}
    return None


def replay(ctx, obj):
    return obj
