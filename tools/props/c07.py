"""C07 — SCD: get_SCD() against the in-Coq rational enclosure of (1/N) sum_d c_d sqrt d."""
import math
from harness.util import *
from harness import gen_seq
from runner import Case, CaseSet

ID = 'C07'
OBLIGATIONS = ['Props/C07.v', 'Props/Tie/charge_tie.v', 'Props/Tie/minipy_scd_tie.v']
RULE = ('exhaustive +/-/0 patterns of length 1..n (quick 7, thorough 9) with random spellings; random class sequences up '
        'to 150 (thorough 300) residues; long homopolymeric / periodic / diblock charged sequences (127..300); singletons; non-trivial = distinct sequence with >= 2 charged residues')
TRUSTED = ['enclosure of sqrt d by Z.sqrt to 12 decimals (proved sound: C07_enclosure); slack 1e-9 for float rounding']
ASSUMPTIONS = ['numpy power(x, 0.5) is accurate to 1e-9 relative (sampled, not proved)']
LEVEL_TEXT = ('Proof (over R, stdlib real axioms): the pair-sum definition of SCD equals the coefficient form sum_d c_d sqrt d / N; '
              'the rational enclosure computed in Coq is proved sound; fewer than two charges gives 0; reversal/inversion symmetry '
              '(C05). get_SCD() is checked inside Coq to lie in the proved enclosure (+1e-9) for every generated sequence.')
LEVEL_NOTE = ('Axioms (Print Assumptions): ClassicalDedekindReals.sig_forall_dec, sig_not_dec, FunctionalExtensionality.'
              'functional_extensionality_dep (Coq Reals). Double loop of the code tied by correspondence + bounded theorem (N<=7).')
LEVEL_NOTE_MINIPY = (' Whole-function tie (minipy_scd_tie.v): sequence_charge_decoration is translated into a Core/MiniPy.v term on every run; for every non-empty charge pattern and every value of the '
                     'np.power(d, 0.5) oracle the translated double loop returns (sum over m > n of q_m q_n R(m-n)) / N.')
TECHNIQUE = 'Coq proof over R (resummation by induction, sqrt enclosure via Z.sqrt_spec) + in-Coq enclosure check of get_SCD()'

IMPORTS = ('From Coq Require Import List ZArith QArith String.\n'
           'From LC Require Import Core.Residue Model.DeltaCheck Model.PatternCheck.\n'
           'Import ListNotations. Local Open Scope string_scope.')


def _scd(seq):
    def f():
        o, held = SPx(seq)
        return held, fnum(o.get_SCD())
    return call(f, seconds=60)


def build(ctx):
    import harness.util as _U
    _U.PRELUDE = 3      # every third object (by crc32 of its sequence) answers after a query history (util.prelude)
    _U.DECORATE = 4     # every fourth sequence is handed to the constructor in another accepted spelling (util.decorate)
    _U.DERIVED = 5      # every fifth object is the all-positions-frozen shuffle of the constructed one (same sequence, sampler's code path)
    rng = ctx.rng
    seqs = [gen_seq.spell(rng, p) for p in gen_seq.patterns_upto(ctx.pick(7, 9))]
    seqs += list(AAS) + gen_seq.random_classes(rng, ctx.pick(250, 800), 1, ctx.pick(150, 300))
    # long structured sequences: homopolymeric charged tracts, periodic repeats, diblocks (large pair counts per separation)
    for n in (127, 128, 129, 130, 160, 200, 256, 300):
        seqs += [rng.choice('KRDE') * n, (rng.choice('KR') + rng.choice('DE')) * (n // 2), 'KKEE' * (n // 4),
                 (rng.choice('KRDE') + 'G') * (n // 2), 'E' * (n // 2) + 'K' * (n // 2),
                 'GS' * 10 + rng.choice('DE') * n + 'GS' * 10]
    for n in range(2, ctx.pick(221, 401)):
        k = rng.randint(1, 3)
        pos = set(rng.sample(range(n), min(k, n)))
        seqs.append(''.join(rng.choice('KRDE') if i in pos else rng.choice('GSAQ') for i in range(n)))
        if n % 2:
            seqs.append(rng.choice('KE') + 'G' * (n - 2) + rng.choice('KE'))
    res = pmap(_scd, seqs)
    cases = []
    ctx.direct_failures = []
    for s0, (st, v) in zip(seqs, res):
        s = s0
        if st == 'ok':
            s, v = v          # the sequence the object actually holds (a shuffled child holds another one than asked for)
        d = {'sequence': s, 'get_SCD': [st, v]}
        if s != s0:
            d['object'] = 'get_shuffled_sequence() child of ' + s0
        if st != 'ok' or not isinstance(v, (int, float)) or math.isnan(v):
            ctx.direct_failures.append(d)
            continue
        cases.append(Case('(%s, %s)' % (cstr(s), cq(v)), d, key=(s, s != s0), nontrivial=sum(c in 'KRDE' for c in s) >= 2))
    return [CaseSet('C07', IMPORTS, 'string * Q', 'check_c07', cases, shard=300)]


def py_scd(seq):
    q = pat_of(seq)
    N = len(q)
    return math.fsum(q[m] * q[n] * math.sqrt(m - n) for m in range(N) for n in range(m)) / N


def search(ctx, broken, cases):
    for c in cases:
        s = c.descr['sequence']
        v = c.descr['get_SCD'][1]
        e = py_scd(s)
        if abs(v - e) > 1e-9 * max(1, abs(e)):
            return {'kind': 'SCD-differs-from-definition', 'sequence': s, 'get_SCD': v, 'definition': e}
    return None


def replay(ctx, obj):
    c = obj.get('case', obj)
    return {'sequence': c['sequence'], 'now': _scd(c['sequence']), 'definition': py_scd(c['sequence']), 'stored': c}
