"""C11 — complexity profiles: window count, positions, range, WF = entropy, LC, LZW, rejections."""
import math
from harness.util import *
from harness import gen_seq
from runner import Case, CaseSet

ID = 'C11'
OBLIGATIONS = ['Props/C11.v', 'Props/Tie/complexity_tie.v', 'Props/Tie/alphabets_tie.v', 'Props/Tie/minipy_complexity_tie.v', 'Props/Tie/minipy_cxglue_tie.v']
RULE = ('random class sequences (N 1..60) x type in {WF, LC, LZW, lower-case spellings, an unknown type} x predefined sizes and '
        'random total user alphabets (>= 2 image letters) x windows 1..N+2 x steps 1..N (all (w,s) for N <= 8, sampled otherwise) x '
        'word sizes 1..6; non-trivial = distinct accepted call with >= 2 windows')
TRUSTED = ['float glue: the WF value is compared (1e-9) with the Shannon entropy of the count vector evaluated in Python '
           '(math.log); the count vectors themselves are compared with the model inside Coq']
ASSUMPTIONS = ['stepSize >= 1 (0 never terminates), wordSize >= 1', 'values in [0,1] read to floating-point accuracy (1e-9)']
LEVEL_TEXT = ('Proof: K = floor((N-w)/s)+1 windows; positions strictly increasing within 1..N; LC and LZW values in [0,1] (counting '
              'lemma: distinct words of length ws over k letters <= k^ws; one dictionary insertion per position); WF = Shannon entropy to '
              'base k lies in [0,1] (Gibbs inequality over R), is 0 for a homopolymeric window and invariant under permuting the window; '
              'each value is a function of its own window of the reduced sequence; unknown type / too long window rejected. '
              'Tie: allowed types, alphabets; positions, counts, LC/LZW values of the real getter compared in Coq.')
LEVEL_NOTE = 'Entropy theorems use the Coq Reals axioms; ln evaluation is float glue (Python) on count vectors checked in Coq.'
LEVEL_NOTE_MINIPY = (' Glue (minipy_cxglue_tie.v): get_indexed_complexity_vector gives the model positions for EVERY 1 <= K <= N (no bound), get_WF/LC/LZW_complexity = reduce, measure, index for any oracles, Sequence.get_linear_*_complexity = window guard then the call, SequenceParameters.get_linear_complexity = case-insensitive dispatch (dispatch_tie). Whole-function ties (minipy_complexity_tie.v): SequenceComplexity.LZW, LC and CWF are translated into Core/MiniPy.v terms on every run; per window the translated code '
                     'returns the model value (LZW, LC) / minus the accumulated sum of p*log(p) over the letters with p = count/w > 0, math.log being an oracle (CWF), for every word, window and step.')
TECHNIQUE = 'Coq proof (div/mod arithmetic, pigeonhole counting, Gibbs inequality over R) + in-Coq correspondence with float glue for ln'

IMPORTS = ('From Coq Require Import List ZArith QArith String.\n'
           'From LC Require Import Core.Residue Model.Alphabets Model.Complexity Gen.GAlphabets.\n'
           'Import ListNotations. Local Open Scope Z_scope. Local Open Scope string_scope.')
CHECKER = 'check_c11 GAlphabets.allowed_sizes GAlphabets.reduce GAlphabets.alphabet'
CT = {'WF': 'CWF', 'LC': 'CLC', 'LZW': 'CLZW'}


def _cx_seq(group):
    """all calls for one sequence on ONE object, in order (a per-object memo must not leak between alphabets / types)"""
    st, o = call(SP, group[0][0])
    if st != 'ok':
        return [(st, o, None)] * len(group)
    return [_cx(a, o) for a in group]


def _cx(args, o=None):
    seq, ctype, size, ua, w, s, ws = args
    o = o or SP(seq)
    st, v = call(lambda: o.get_linear_complexity(ctype, size, ua, w, s, ws), seconds=20)
    if st != 'ok':
        return st, v, None
    try:
        import numpy as np
        a = np.asarray(v, dtype=float)
        pos, vals = [int(x) for x in a[0]], [float(x) for x in a[1]]
        if any(float(int(x)) != x for x in a[0]):
            return 'bad-shape', repr(v)[:200], None
    except Exception:
        return 'bad-shape', repr(v)[:200], None
    red, alph = o.get_reduced_alphabet_sequence(size, ua)
    counts = []
    step = 0
    while step <= len(red) - w:
        win = red[step:step + w]
        counts.append([win.count(x) for x in alph])
        step += s
    return 'ok', (pos, vals), (counts, len(alph))


def entropy(cs, k, w):
    return -math.fsum((c / w) * math.log(c / w) for c in cs if c > 0) / math.log(k) + 0.0


def build(ctx):
    import harness.util as _U
    _U.PRELUDE = 3      # every third object (by crc32 of its sequence) answers after a query history (util.prelude)
    _U.DECORATE = 4     # every fourth sequence is handed to the constructor in another accepted spelling (util.decorate)
    _U.DERIVED = 5      # every fifth object is the all-positions-frozen shuffle of the constructed one (same sequence, sampler's code path)
    rng = ctx.rng
    jobs = []
    seqs = gen_seq.random_classes(rng, ctx.pick(70, 400), 1, 60)
    sizes = [2, 3, 4, 5, 6, 8, 10, 11, 12, 15, 18, 20]
    for sq_ in seqs:
        N = len(sq_)
        ws_pairs = [(w, s) for w in range(1, N + 3) for s in range(1, N + 1)] if N <= 8 else \
            [(rng.randint(1, N + 2), rng.randint(1, N)) for _ in range(8)]
        for w, s in ws_pairs:
            ct = rng.choice(['WF', 'LC', 'LZW', 'wf', 'lc', 'Lzw', 'WF', 'LC', 'LZW', 'RHP', 'XX'])
            if rng.random() < 0.25:
                img = rng.sample(AAS, rng.randint(2, 8))
                ua = {a: rng.choice(img) for a in AAS}
                size = 20
            else:
                ua, size = {}, rng.choice(sizes + [7])
            jobs.append((sq_, ct, size, ua, w, s, rng.randint(1, 6)))
        # the same windows scored under alphabets of different size, back to back on one object
        w, s = rng.randint(1, N), rng.randint(1, N)
        a1, a2 = rng.sample(sizes, 2)
        img = rng.sample(AAS, 3)
        jobs += [(sq_, 'WF', a1, {}, w, s, 3), (sq_, 'WF', a2, {}, w, s, 3), (sq_, 'WF', 20, {a: rng.choice(img) for a in AAS}, w, s, 3),
                 (sq_, 'WF', 20, {}, w, s, 3)]
    byseq = {}
    for j in jobs:
        byseq.setdefault(j[0], []).append(j)
    jobs = [j for q in byseq for j in byseq[q]]
    res = [r for rr in pmap(_cx_seq, list(byseq.values()), chunk=4) for r in rr]
    cases = []
    ctx.direct_failures = []
    for (sq_, ct, size, ua, w, s, ws), (st, v, extra) in zip(jobs, res):
        d = {'sequence': sq_, 'complexityType': ct, 'alphabetSize': size, 'userAlphabet': ua, 'window': w, 'step': s, 'wordSize': ws,
             'impl': [st, v]}
        if st not in ('ok', 'rejected'):
            ctx.direct_failures.append(d)
            continue
        cua = 'UNone' if not ua else '(UDict %s)' % clist('(%s, %s)' % (cstr(k), cstr(x)) for k, x in ua.items())
        cct = CT.get(ct.upper(), 'COther')
        if st == 'ok':
            pos, vals = v
            counts, k = extra
            N = len(sq_)
            K = (N - w) // s + 1
            probs = []
            if len(pos) != K or len(vals) != K:
                probs.append('window count %d != floor((N-w)/s)+1 = %d' % (len(vals), K))
            if any(b <= a for a, b in zip(pos, pos[1:])) or (pos and (pos[0] < 1 or pos[-1] > N)):
                probs.append('positions not strictly increasing within 1..N')
            if any(x < -1e-9 or x > 1 + 1e-9 for x in vals):
                probs.append('value outside [0,1]')
            if cct == 'CWF' and k >= 2:
                for x, cs in zip(vals, counts):
                    if abs(x - entropy(cs, k, w)) > 1e-9:
                        probs.append('WF value %r is not the entropy %r of counts %r' % (x, entropy(cs, k, w), cs))
                        break
            if probs:
                d['why'] = probs
                ctx.direct_failures.append(d)
                continue
            r = '(Some (%s, %s, %s))' % (clist(cz(x) for x in pos), clist(cq(x) for x in vals),
                                          clist(clist(cz(c) for c in cs) for cs in counts))
        else:
            r = 'None'
        coq = '(%s, %s, %s, %s, %s, %s, %s, %s)' % (cstr(sq_), cct, cz(size), cua, cnat(w), cnat(s), cnat(ws), r)
        cases.append(Case(coq, d, key=(sq_, ct, size, repr(ua), w, s, ws), nontrivial=(st == 'ok' and len(v[1]) >= 2)))
    return [CaseSet('C11', IMPORTS, 'string * ctype * Z * ualpha * nat * nat * nat * option (list Z * list Q * list (list Z))',
                    CHECKER, cases, shard=250)]


def search(ctx, broken, cases):
    """locality (mutating residues outside a window keeps its value) and permutation invariance of WF"""
    rng = ctx.rng
    for c in cases[:300]:
        d = c.descr
        if d['impl'][0] != 'ok' or d['complexityType'].upper() != 'WF':
            continue
        s, w, st = d['sequence'], d['window'], d['step']
        vals = d['impl'][1][1]
        j = rng.randrange(len(vals))
        lo, hi = j * st, j * st + w
        t = ''.join(ch if lo <= i < hi else rng.choice(AAS) for i, ch in enumerate(s))
        r = _cx((t, 'WF', d['alphabetSize'], d['userAlphabet'], w, st, 3))
        if r[0] != 'ok' or abs(r[1][1][j] - vals[j]) > 1e-12:
            return {'kind': 'value-depends-on-residues-outside-its-window', 'sequence': s, 'mutated': t, 'window_index': j,
                    'values': [vals[j], r[1] if r[0] != 'ok' else r[1][1][j]]}
    return None


def replay(ctx, obj):
    return obj
