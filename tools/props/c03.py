"""C03 — delta-max: value vs the model of the documented search for every composition,
composition-only (several arrangements/spellings), permutant clause."""
from fractions import Fraction
from harness.util import *
from harness import gen_seq
from runner import Case, CaseSet
from props.c02 import py_delta

ID = 'C03'
OBLIGATIONS = ['Props/C03.v', 'Props/Tie/charge_tie.v', 'Props/Tie/delta_formulas_tie.v', 'Props/Tie/deltamax_tie.v', 'Props/Tie/minipy_forward_c03_tie.v', 'Props/Tie/minipy_permutant_tie.v']
RULE = ('every composition (n+,n-,n0) with N <= B (quick 18, thorough 28) in 2 random arrangements+spellings, random '
        'compositions up to N=120 (regime 4 kept <= 60), each through get_deltaMax() and get_deltaMax(True); '
        'non-trivial = distinct sequence with a charged residue and N >= 6')
TRUSTED = ['Spec.Delta.cands: the documented family transcribed from the property text / deltaMax docstring comments',
           'permutant delta compared with tolerance 1e-9 (arg-max by property, DESIGN section 2)']
ASSUMPTIONS = ['float comparisons inside the search (dmax < delta) may break exact ties either way; the value is compared, '
               'and the permutant is checked by property (rearrangement + attains the value)']
LEVEL_TEXT = ('Proof: delta-max of the model is the maximum of delta over the documented candidate family, is attained, '
              'depends only on the composition, and the returned permutant is a rearrangement of the input with the '
              'maximising pattern (all unbounded theorems). Tie: regime guards/loop bounds extracted from deltaMax are proved '
              'equal to the family\'s; get_deltaMax()/get_deltaMax(True) compared in Coq for every small composition. Whole-function tie (minipy_permutant_tie.v): __permutant_from_reduced_seq, translated into a Core/MiniPy.v term on every run, returns exactly Model.Delta.permutant for EVERY parent sequence and arrangement that does not over-draw a class.')
LEVEL_NOTE = 'Closed under the global context. Trusts py2coq extraction of the deltaMax regime structure, harness, tolerance 1e-9.'
TECHNIQUE = 'Coq proof (fold/maximum lemmas, permutation of refill) + translator tie of regime constants + in-Coq correspondence'

IMPORTS = ('From Coq Require Import List ZArith QArith String.\n'
           'From LC Require Import Core.Residue Model.DeltaCheck.\n'
           'Import ListNotations. Local Open Scope string_scope.')


def _dmax(seq):
    def f():
        o = SP(seq)
        v = fnum(o.get_deltaMax())
        w = o.get_deltaMax(True)
        fresh = SP(seq).get_deltaMax(True)
        return (v, (fnum(w[0]), w[1]), (fnum(fresh[0]), fresh[1]))
    return call(f, seconds=60)


def build(ctx):
    import harness.util as _U
    _U.PRELUDE = 3      # every third object (by crc32 of its sequence) answers after a query history (util.prelude)
    _U.DECORATE = 4     # every fourth sequence is handed to the constructor in another accepted spelling (util.decorate)
    _U.DERIVED = 5      # every fifth object is the all-positions-frozen shuffle of the constructed one (same sequence, sampler's code path)
    rng = ctx.rng
    seqs = []
    B = ctx.pick(18, 28)
    for comp in gen_seq.compositions_upto(B):
        for _ in range(2):
            seqs.append(gen_seq.spell(rng, gen_seq.arrange(rng, comp)))
    for _ in range(ctx.pick(120, 600)):
        N = rng.randint(19, 120)
        kind = rng.random()
        if kind < 0.25:       # one charge type
            k = rng.randint(1, N)
            comp = (k, 0, N - k) if rng.random() < 0.5 else (0, k, N - k)
        elif kind < 0.4:      # no neutrals
            k = rng.randint(1, N - 1)
            comp = (k, N - k, 0)
        elif kind < 0.7:      # >= 18 neutrals
            z = rng.randint(18, max(18, N - 2))
            p = rng.randint(1, max(1, N - z - 1))
            comp = (p, max(1, N - z - p), z)
        else:                 # < 18 neutrals
            z = rng.randint(1, 17)
            N = max(N // 2, z + 2)
            p = rng.randint(1, N - z - 1)
            comp = (p, N - z - p, z)
        seqs.append(gen_seq.spell(rng, gen_seq.arrange(rng, comp)))
    res = pmap(_dmax, seqs, chunk=8)
    cases = []
    ctx.direct_failures = []
    for s, (st, v) in zip(seqs, res):
        d = {'sequence': s, 'impl': [st, v]}
        if st != 'ok':
            ctx.direct_failures.append(d)
            continue
        val, (v2, t), (v3, t3) = v
        if not (isinstance(t, str) and all(c in AAS for c in t) and v2 == val and v3 == val and t3 == t):
            d['why'] = 'permutant missing / not a residue string / differs from a fresh object / value differs between calls'
            ctx.direct_failures.append(d)
            continue
        nt = len(s) >= 6 and any(c in 'KRDE' for c in s)
        cases.append(Case('(%s, %s, %s)' % (cstr(s), cq(val), cstr(t)), d, key=s, nontrivial=nt))
    ctx.notes['compositions_exhaustive_upto'] = B
    return [CaseSet('C03', IMPORTS, 'string * Q * string', 'check_c03', cases, shard=250)]


def family(p, n, z):
    """the documented family, independent Python copy (search only)"""
    out = []
    if p + n == 0:
        return out
    if p == 0 or n == 0:
        c, k = (-1, n) if p == 0 else (1, p)
        if z > k:
            out = [[0] * i + [c] * k + [0] * (z - i) for i in range(z + 1)]
        else:
            out = [[c] * i + [0] * z + [c] * (k - i) for i in range(k + 1)]
    elif z == 0:
        if p > n:
            out = [[1] * i + [-1] * n + [1] * (p - i) for i in range(p + 1)]
        else:
            out = [[-1] * i + [1] * p + [-1] * (n - i) for i in range(n + 1)]
    elif z >= 18:
        out = [[0] * s + [1] * p + [0] * (z - s - e) + [-1] * n + [0] * e for s in range(7) for e in range(7)]
    else:
        out = [[0] * s + [1] * p + [0] * m + [-1] * n + [0] * (z - s - m) for m in range(z + 1) for s in range(z - m + 1)]
    return out


def _pdelta(q):
    return py_delta(''.join('K' if x > 0 else 'E' if x < 0 else 'G' for x in q))


def search(ctx, broken, cases):
    tol = Fraction(1, 10 ** 9)
    # targeted compositions around the regime boundaries (n0 = 17/18/19, one charge type, ties p = n, k = z)
    extra = []
    for z in (0, 1, 5, 6, 7, 16, 17, 18, 19, 20, 24, 30):
        for p, n in ((1, 1), (2, 3), (3, 2), (4, 4), (0, 3), (3, 0), (0, z), (z, 0), (1, 6), (7, 2)):
            if p + n > 0:
                sq_ = gen_seq.spell(ctx.rng, gen_seq.arrange(ctx.rng, (p, n, z)))
                st, v = _dmax(sq_)
                if st != 'ok':
                    return {'kind': 'deltaMax-fails', 'sequence': sq_, 'impl': [st, v]}
                extra.append(Case('', {'sequence': sq_, 'impl': [st, v]}))
    for c in extra + list(cases[:1500]):
        s = c.descr['sequence']
        val, (v2, t), _ = c.descr['impl'][1]
        q = pat_of(s)
        p, n = q.count(1), q.count(-1)
        z = len(q) - p - n
        fam = family(p, n, z)
        best = max([_pdelta(x) for x in fam]) if fam else Fraction(0)
        if abs(Fraction(val) - best) > tol * max(1, best):
            return {'kind': 'deltaMax-differs-from-documented-family-maximum', 'sequence': s, 'composition': [p, n, z],
                    'get_deltaMax': val, 'family_maximum': float(best)}
        if sorted(t) != sorted(s) or abs(py_delta(t) - Fraction(val)) > tol * max(1, best):
            return {'kind': 'permutant-not-a-rearrangement-attaining-deltaMax', 'sequence': s, 'permutant': t,
                    'delta_of_permutant': float(py_delta(t)), 'get_deltaMax': val}
        s2 = list(s)
        ctx.rng.shuffle(s2)
        st, v = call(lambda: fnum(SP(''.join(s2)).get_deltaMax()))
        if st != 'ok' or v != val:
            return {'kind': 'deltaMax-not-composition-only', 'sequence': s, 'permuted': ''.join(s2),
                    'values': [val, v]}
    return None


def replay(ctx, obj):
    c = obj.get('case', obj)
    s = c['sequence']
    return {'sequence': s, 'now': _dmax(s), 'stored': c}


def replay_fixed(ctx, fnd):
    """fixed: entries suppress nothing; their witnesses must pass"""
    w = fnd.get('witness')
    if fnd.get('id') == 'D2':
        def f():
            o = SP(w)
            o.get_kappa()
            return o.get_deltaMax(True)
        st, v = call(f)
        if st != 'ok' or v[1] is None or sorted(v[1]) != sorted(w):
            return {'history': ['get_kappa()', 'get_deltaMax(True)'], 'sequence': w, 'result': [st, repr(v)]}
    if fnd.get('id') == 'D3':
        st, v = call(lambda: SP(w).get_deltaMax(True))
        if st != 'ok' or v[1] is None or sorted(v[1]) != sorted(w):
            return {'call': 'get_deltaMax(True)', 'sequence': w, 'result': [st, repr(v)]}
    return None
