"""C17 — shuffles and moves: chains of moves on real Sequence objects under a logged RNG tape."""
from harness.util import *
from harness import gen_seq
from harness.rngshim import Tape, install
from runner import Case, CaseSet

ID = 'C17'
OBLIGATIONS = ['Props/C17.v', 'Props/Tie/moves_tie.v', 'Props/Tie/charge_tie.v', 'Props/Tie/minipy_moves_tie.v']
RULE = ('parents: random class sequences (N 4..30) and degenerate ones (no charge, one charge type, all/all-but-one frozen) x '
        'frozen sets (empty, random, prefix, everything; handed over as sets of Python ints, of numpy ints, or lists) x chains of 1..8 moves drawn from {swapRes, swapRandChargeRes, full_shuffle, '
        'get_shuffled_sequence, get_permutant, permute_block_swap, permute_cluster_charges} with kappa() queries at random points '
        '(delta-max cached or not); every random choice comes from a seeded tape and is logged; non-trivial = distinct chain with '
        '>= 2 moves that changed the sequence')
TRUSTED = ['RNG shim: random.Random replaced by a logging generator (seed() ignored); the logged outcomes are the model\'s inputs',
           'known finding D9 (block swap / clustering ignore frozen) classified by call site + "frozen position moved"']
ASSUMPTIONS = ['random.Random methods stay within their documented ranges', 'block swap needs N >= 4, clustering >= 2 like charges and a finite tape']
LEVEL_TEXT = ('Proof: every move is an index rearrangement (one device, fill2) — the child is a Permutation of the parent for ALL outcomes '
              'of the random choices; positions outside the exchanged index sets keep their residue (so frozen positions are fixed by '
              'swapRandChargeRes and full_shuffle); the child\'s charge pattern is that of its sequence (also for swapRes, which swaps the '
              'two entries) and the carried delta-max equals that of a fresh object (composition-only); chains by induction. '
              'block swap / clustering ignoring frozen is refuted on the model (D9, known finding). '
              'Whole-function ties (minipy_moves_tie.v): the translated source of the constructor core, swapRes, full_shuffle and '
              'swapRandChargeRes, run by the MiniPy interpreter with the random draws as oracles indexed by call site, returns exactly '
              'the model\'s object for EVERY parent, index pair, frozen list and oracle outcome the model accepts '
              '(swapRandChargeRes calls the translated swapRes; every child is built by running the translated constructor).')
LEVEL_NOTE = 'Closed under the global context. Mersenne twister / time seeding replaced by the tape.'
LEVEL_NOTE_MINIPY = (' Whole-function ties: Sequence.__init__ (core), swapRes, full_shuffle, swapRandChargeRes are translated into Core/MiniPy.v terms on every run; '
                     'the random generator is an oracle indexed by call site (hypotheses of the tie theorems state what it returned).')
TECHNIQUE = 'Coq proof (generic permutation lemma for stack-filling rearrangements) + tape-driven in-Coq correspondence of move chains'

IMPORTS = ('From Coq Require Import List ZArith QArith String.\n'
           'From LC Require Import Core.Residue Model.Moves.\n'
           'Import ListNotations. Local Open Scope Z_scope. Local Open Scope string_scope.')


def nl(xs):
    return clist(cnat(int(x)) for x in xs)


def _obs(c):
    return (c.seq, [int(x) for x in c.chargePattern], None if c.dmax == -1 else fnum(c.dmax))


def _container(fz, variant):
    """the caller may hand the frozen positions over in several forms"""
    import numpy as np
    if variant == 1:
        return set(np.array(sorted(fz), dtype=int)) if fz else set()
    if variant == 2:
        return {np.int64(x) for x in fz}
    return set(fz)


def _chain(args):
    seq, frozen, plan, seed = args
    import localcider.backend.sequence as S
    from localcider.sequenceParameters import SequenceParameters
    from localcider.sequencePermutants import SequencePermutants

    def f():
        tape = Tape(seed)
        install(tape, S)
        cur = S.Sequence(seq)
        steps, problems, d9 = [], [], []
        fz = set(frozen)
        for kind, arg in plan:
            before = _obs(cur)
            tape.take()
            mv = None
            try:
                if kind == 'kappa':
                    cur.kappa()
                    steps.append(('MKappa', _obs(cur)))
                    continue
                if kind == 'swap':
                    i, j = arg
                    child = cur.swapRes(i, j)
                    mv = '(MSwap %s %s)' % (cnat(i), cnat(j))
                    moved_ok = {k for k in range(len(seq))} - {i, j}
                elif kind == 'swaprand':
                    child = cur.swapRandChargeRes(_container(fz, seed % 3))
                    log = tape.take()
                    if not log:
                        mv = '(MSwapRandSelf %s)' % nl(sorted(fz))
                    else:
                        ct = (1, 2)
                        if log[0][1] == [1, 2, 3] and log[0][2] == 2:      # the charge-type draw (k = 2); a position draw has k = 1
                            ct = tuple(log[0][3])
                            log = log[1:]
                        a, b = log[0][3][0], log[1][3][0]
                        mv = '(MSwapRand %s (%s, %s) %s %s)' % (nl(sorted(fz)), cnat(ct[0]), cnat(ct[1]), cnat(a), cnat(b))
                    moved_ok = fz
                elif kind in ('shuffle', 'shuffled_sequence', 'permutant'):
                    if kind == 'shuffle':
                        child, use = cur.full_shuffle(_container(fz, seed % 3) if seed % 5 else sorted(fz)), fz
                    elif kind == 'shuffled_sequence':
                        sp = SequenceParameters(SeqObj=cur)
                        child, use = sp.get_shuffled_sequence(_container(fz, (seed // 3) % 3)).SeqObj, fz
                    else:
                        pm = SequencePermutants(cur.seq)
                        pm.SeqObj = cur
                        child, use = pm.get_permutant().SeqObj, set()
                    log = tape.take()
                    mv = '(MShuffle %s %s)' % (nl(sorted(use)), nl(log[0][1]))
                    moved_ok = use
                elif kind == 'block':
                    child = cur.permute_block_swap(set(fz))
                    log = tape.take()
                    bs = log[-2][3]
                    i1, i2 = sorted(log[-1][3])
                    mv = '(MBlock %s %s %s)' % (cnat(bs), cnat(i1), cnat(i2))
                    moved_ok = None
                elif kind == 'cluster':
                    child = cur.permute_cluster_charges(set(fz))
                    log = tape.take()
                    k = max(i for i, e in enumerate(log) if e[0] == 'sample')
                    size, center = log[k - 2][3], log[k - 1][3]
                    mv = '(MCluster %s %s %s)' % (cnat(center - size // 2), cnat(size), nl(log[k][3]))
                    moved_ok = None
            except CallTimeout:
                raise
            except Exception as e:
                problems.append({'move': kind, 'on': cur.seq, 'frozen': sorted(fz), 'raised': type(e).__name__, 'detail': str(e)[:120]})
                break
            after = _obs(cur)
            o = _obs(child)
            if after != before:
                problems.append({'move': kind, 'why': 'the object the move was called on changed', 'before': before, 'after': after})
            if sorted(o[0]) != sorted(cur.seq) or child.len != len(o[0]):
                problems.append({'move': kind, 'why': 'not a rearrangement / wrong len', 'parent': cur.seq, 'child': o[0]})
            fresh = S.Sequence(o[0])
            if o[1] != [int(x) for x in fresh.chargePattern]:
                problems.append({'move': kind, 'why': 'charge pattern differs from a fresh object', 'child': o[0], 'pattern': o[1]})
            if o[2] is not None and abs(o[2] - fresh.deltaMax()) > 1e-12:
                problems.append({'move': kind, 'why': 'carried delta-max differs from a fresh object', 'child': o[0], 'carried': o[2]})
            bad = [k for k in (fz if moved_ok is None else moved_ok) if o[0][k] != cur.seq[k]]
            if bad and moved_ok is None:
                d9.append({'move': kind, 'parent': cur.seq, 'child': o[0], 'frozen': sorted(fz), 'moved': bad})
            elif bad:
                problems.append({'move': kind, 'why': 'frozen / untouched position changed', 'parent': cur.seq, 'child': o[0],
                                 'frozen': sorted(fz), 'moved': bad})
            steps.append((mv, o))
            cur = child
        return steps, problems, d9
    return call(f, seconds=60)


def plans(rng, seq, frozen):
    N = len(seq)
    p = pat_of(seq)
    out = []
    for _ in range(rng.randint(1, 8)):
        r = rng.random()
        if r < 0.15:
            out.append(('kappa', None))
        elif r < 0.3:
            out.append(('swap', (rng.randrange(N), rng.randrange(N))))
        elif r < 0.5:
            out.append(('swaprand', None))
        elif r < 0.7:
            out.append((rng.choice(['shuffle', 'shuffled_sequence', 'permutant']), None))
        elif r < 0.85 and N >= 4:
            out.append(('block', None))
        elif (p.count(1) >= 2 or p.count(-1) >= 2) and len(set(seq)) >= 3 and N >= 7:
            out.append(('cluster', None))
        else:
            out.append(('swaprand', None))
    return out


def build(ctx):
    rng = ctx.rng
    jobs = []
    seqs = gen_seq.random_classes(rng, ctx.pick(220, 1200), 4, 30)
    seqs += ['GGGGSSGG', 'KKKKKKGG', 'EEEEE', 'KEKEKEKE', 'GSGS', 'KKKKEEEE', 'AKAEA', 'KRDE']
    for s in seqs:
        N = len(s)
        r = rng.random()
        fz = [] if r < 0.35 else sorted(rng.sample(range(N), rng.randint(1, N))) if r < 0.75 else \
            list(range(rng.randint(1, N))) if r < 0.9 else list(range(N)) if r < 0.95 else list(range(N - 1))
        jobs.append((s, fz, plans(rng, s, fz), rng.randrange(10 ** 9)))
    res = pmap(_chain, jobs, chunk=8)
    cases = []
    ctx.direct_failures = []
    ctx.d9 = []
    for (s, fz, plan, seed), (st, v) in zip(jobs, res):
        d = {'sequence': s, 'frozen': fz, 'plan': [k for k, _ in plan], 'tape_seed': seed}
        if st != 'ok':
            d['impl'] = [st, v]
            # clustering can loop forever when delta cannot change (outside the property text): not a failure
            if st == 'timeout' and any(k == 'cluster' for k, _ in plan):
                ctx.notes['cluster_timeouts'] = ctx.notes.get('cluster_timeouts', 0) + 1
                continue
            ctx.direct_failures.append(d)
            continue
        steps, problems, d9 = v
        ctx.d9 += d9
        probs = [p for p in problems if not (p.get('move') in ('block', 'cluster') and 'raised' in p)]
        ctx.notes['block_or_cluster_refusals'] = ctx.notes.get('block_or_cluster_refusals', 0) + len(problems) - len(probs)
        if probs:
            d['problems'] = probs
            ctx.direct_failures.append(d)
            continue
        hs = []
        for mv, (cs, cp, cd) in steps:
            hs.append('(%s, (%s, %s, %s))' % (mv, cstr(cs), clist(cz(x) for x in cp), 'None' if cd is None else '(Some %s)' % cq(cd)))
        d['moves'] = [m for m, _ in steps]
        changed = sum(1 for i, (m, o) in enumerate(steps) if m != 'MKappa' and o[0] != (steps[i - 1][1][0] if i else s))
        cases.append(Case('(%s, %s)' % (cstr(s), clist(hs)), d, key=(s, tuple(fz), seed), nontrivial=changed >= 2))
    ctx.notes['frozen_moved_by_block_or_cluster'] = len(ctx.d9)
    return [CaseSet('C17', IMPORTS, 'string * list (move * (string * list Z * option Q))', 'check_c17', cases, shard=40)]


def post(ctx, cases, failing, known_lines):
    d9 = [f for f in ctx.findings if f['kind'] == 'finding' and f.get('id') == 'D9']
    if ctx.d9 and not d9:
        return [{'kind': 'frozen-position-moved', **ctx.d9[0]}]
    return []


def replay_finding(ctx, fnd):
    # witness: block swap and clustering with everything frozen still rearrange
    st, v = _chain(('EKEKGGEKEKSSDRKE', list(range(16)), [('block', None), ('cluster', None)], 7))
    still = st == 'ok' and len(v[2]) > 0
    txt = ''
    if still:
        e = v[2][0]
        txt = ('id=D9 site=Sequence.permute_block_swap,Sequence.permute_cluster_charges frozen positions rearranged: '
               '%s(frozen=all) turned %s into %s' % (e['move'], e['parent'], e['child']))
    return still, txt


def replay_fixed(ctx, fnd):
    w = fnd.get('witness', 'EKEKGGEKEKSS')
    if fnd.get('id') == 'D6':
        st, v = _chain((w, [], [('swap', (0, 5))], 1))
        if st != 'ok' or v[1]:
            return {'move': 'swapRes(0,5)', 'sequence': w, 'result': [st, repr(v)[:300]]}
    if fnd.get('id') == 'D5':
        st, v = _chain((w, [], [('swaprand', None)], 1))
        if st != 'ok' or v[1]:
            return {'move': 'swapRandChargeRes()', 'sequence': w, 'result': [st, repr(v)[:300]]}
    return None


def search(ctx, broken, cases):
    return None


def replay(ctx, obj):
    c = obj.get('case', obj)
    if 'tape_seed' in c:
        return {'note': 'chain is regenerated from (sequence, frozen, plan, tape_seed)', 'stored': c}
    return obj
