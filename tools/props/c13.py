"""C13 — constructing SequenceParameters from arbitrary strings."""
from harness.util import *
from harness import gen_seq
from runner import Case, CaseSet

ID = 'C13'
OBLIGATIONS = ['Props/C13.v', 'Props/Tie/normalise_tie.v', 'Props/Tie/minipy_validate_tie.v', 'Props/Tie/minipy_init_tie.v']
RULE = ('valid sequences with random case and injected ASCII/Unicode whitespace; every one of the 128 ASCII characters at '
        'first / middle / last position of a valid word; non-ASCII letters whose upper() is a residue word (ß, ſ, ı, ﬁ …) and '
        'other Unicode letters/digits; empty / blank strings; non-strings (None, int, bytes, list, str subclass); '
        'non-trivial = distinct string of >= 2 characters')
TRUSTED = ["Python's own str.upper()/str.isspace() answers for the characters used are passed to the model as tables "
           '(the Unicode case tables are an oracle, not modelled)']
ASSUMPTIONS = ['analyses compared on the object vs a fresh object built from the normalised word (kappa, FCR, hydropathy)']
LEVEL_TEXT = ('Proof (parametric in upper/isspace): accepted iff the upper-cased text with whitespace deleted is a non-empty word '
              'over the 20 letters, and the stored word is exactly that; otherwise rejected (empty input, a character that is '
              'neither residue nor whitespace, or nothing left); a normalised word is a fixed point; ASCII corollaries (lower case '
              'accepted, every other non-space ASCII character rejected at any position). Tie: constructor/validation fingerprints; '
              'real constructor compared in Coq on structured + malformed strings.')
LEVEL_NOTE_MINIPY = ' Whole-function semantic ties (source translated to Core/MiniPy terms on every run, proved equal to the model for all inputs): validateSequence and the head of Sequence.__init__ (stored sequence and length).'
LEVEL_NOTE = 'Closed under the global context. Python Unicode tables enter as per-case oracle tables.'
TECHNIQUE = 'Coq proof parametric in Section variables + table-driven in-Coq correspondence'

IMPORTS = ('From Coq Require Import List NArith.\n'
           'From LC Require Import Core.Residue Model.Normalise.\n'
           'Import ListNotations. Local Open Scope N_scope.')


class StrSub(str):
    pass


def _make(x):
    from localcider.sequenceParameters import SequenceParameters

    st, o = call(SequenceParameters, x, seconds=30)
    if st != 'ok':
        return st, o

    def f():
        s = o.get_sequence()
        fresh = SequenceParameters(s)
        same = all(abs(a - b) < 1e-12 for a, b in [(o.get_kappa(), fresh.get_kappa()), (o.get_FCR(), fresh.get_FCR()),
                                                   (o.get_mean_hydropathy(), fresh.get_mean_hydropathy())])
        return (s, int(o.get_length()), len(o), int(o.SeqObj.len), same)
    st2, v = call(f, seconds=30)
    if st2 != 'ok':      # an object was produced but cannot be analysed like its normalised word
        return 'ok', (call(o.get_sequence)[1], -1, -1, -1, False)
    return 'ok', v


def build(ctx):
    rng = ctx.rng
    ws = [' ', '\t', '\n', '\r', '\x0b', '\x0c', '\x1c', '\x1f', ' ', ' ', '　', ' ', '\x85']
    inputs = []
    for s in gen_seq.random_classes(rng, ctx.pick(120, 800), 1, 40):
        t = ''.join((c.lower() if rng.random() < 0.4 else c) + (rng.choice(ws) if rng.random() < 0.15 else '') for c in s)
        inputs.append(t)
    # whitespace AND an invalid character in one string, in either order (a "warned once" flag must not swallow the junk)
    junk = ['1', 'X', '*', '-', 'b', 'Z', '.', '\x00', 'é', '5', 'u', '_']
    for s in gen_seq.random_classes(rng, ctx.pick(60, 300), 2, 25):
        w, j = rng.choice(ws), rng.choice(junk)
        i, k = sorted((rng.randint(0, len(s)), rng.randint(0, len(s))))
        inputs += [s[:i] + w + s[i:k] + j + s[k:], s[:i] + j + s[i:k] + w + s[k:], w + s + j, w + j + s, s + w + j]
    base = 'EKGS'
    for c in range(128):
        ch = chr(c)
        inputs += [ch + base, base[:2] + ch + base[2:], base + ch, ch]
    for ch in ['ß', 'ſ', 'ı', 'ﬁ', 'ﬆ', 'é', 'Ω', 'к', 'Ｋ', '５', 'ǅ', 'ŉ', 'İ', 'ᾳ']:
        inputs += [ch, 'EK' + ch + 'G', ch + ch]
    inputs += ['', ' ', '\n\t ', '   ', 'ACDEFGHIKLMNPQRSTVWY', 'acdefghiklmnpqrstvwy', 'X', 'B', 'Z', 'U', 'O', 'J', '*', 'EK*', 'EK-GS', 'E.K']
    cases = []
    ctx.direct_failures = []
    res = pmap(_make, inputs, chunk=32)
    for x, (st, v) in zip(inputs, res):
        d = {'input': x, 'impl': [st, v]}
        if st == 'timeout' or (st == 'ok' and (not v[4] or not all(c in AAS for c in v[0]))):
            d['why'] = 'analyses differ from a fresh object on the normalised word / stored word is not over the 20 letters'
            ctx.direct_failures.append(d)
            continue
        chars = sorted(set(x))
        ut = clist('(%d, %s)' % (ord(c), clist(str(ord(u)) for u in c.upper())) for c in chars)
        stt = clist('(%d, %s)' % (ord(c), cbool(c.isspace())) for c in chars)
        r = 'None' if st != 'ok' else '(Some (%s, %d, %d, %d))' % (clist(str(ord(c)) for c in v[0]), v[1], v[2], v[3])
        cases.append(Case('(%s, %s, %s, %s)' % (clist(str(ord(c)) for c in x), ut, stt, r), d, key=x, nontrivial=len(x) >= 2))
    # non-strings must be rejected (no model needed: the statement is direct)
    class _Spells(object):
        def __str__(self):
            return 'EKGS'
    import numpy as _np
    for x in [None, 5, 3.5, b'EKGS', ['E', 'K'], ('E',), StrSub('EKGS'), {'E': 1}, True,
              # non-strings whose text happens to spell a word over the 20 letters
              float('nan'), float('inf'), False, Ellipsis, _np.nan, _np.float64('inf'), _Spells(), _np.array('EKGS')]:
        st, v = _make(x)
        if st == 'ok' and not (x is None or x is True):     # None/True fall into the sequenceFile branch and fail there
            ctx.direct_failures.append({'input': repr(x), 'impl': [st, v], 'why': 'non-string accepted'})
        elif st == 'ok':
            ctx.direct_failures.append({'input': repr(x), 'impl': [st, v], 'why': 'non-string accepted'})
    ctx.notes['non_string_inputs_rejected'] = 9
    return [CaseSet('C13', IMPORTS, 'list N * list (N * list N) * list (N * bool) * option (list N * N * N * N)', 'check_c13',
                    cases, shard=300)]


def search(ctx, broken, cases):
    for c in cases:
        x = c.descr['input']
        st, v = c.descr['impl']
        norm = ''.join(ch for ch in x.upper() if not ch.isspace())
        ok = len(norm) > 0 and all(ch in AAS for ch in norm)
        if ok != (st == 'ok') or (ok and (v[0] != norm or v[1] != len(norm) or v[2] != len(norm))):
            return {'kind': 'normalise-or-reject', 'input': x, 'impl': [st, v], 'normalised': norm, 'should_accept': ok}
    return None


def replay(ctx, obj):
    c = obj.get('case', obj)
    return {'input': c.get('input'), 'now': _make(c.get('input')), 'stored': c}
