"""C16 — phosphosite histories (set/clear with arbitrary integer positions) and derived values."""
from harness.util import *
from harness import gen_seq
from runner import Case, CaseSet

ID = 'C16'
OBLIGATIONS = ['Props/C16.v', 'Props/Tie/phospho_tie.v', 'Props/Tie/charge_tie.v', 'Props/Tie/minipy_phospho_tie.v', 'Props/Tie/minipy_phoskappa_tie.v', 'Props/Tie/minipy_phosdist_tie.v']
RULE = ('S/T/Y-rich random sequences (N 1..24) x histories of 1..6 set/clear calls; requested positions drawn from '
        '{0, -1, -N, -N-1, 1, N, N+1, N+7, duplicates, non-STY positions, all STY positions}, passed as int / list / tuple; '
        'after every call get_phosphosites, get_phosphosequence, get_sequence are recorded; read-only query points (get_kappa, get_kappa_after_phosphorylation, in either order) are interleaved; at the end kappa_after, all STY '
        'sites and (k <= 4 quick / 6 thorough) the full distribution; non-trivial = distinct history recording >= 1 site')
TRUSTED = ['requests canonicalised to lists of ints (a single int becomes a singleton, as the code does)']
ASSUMPTIONS = ['positions are Python ints']
LEVEL_TEXT = ('Proof (all op lists): recorded sites = first-occurrence dedup of the valid (in-range, S/T/Y) requests since the last '
              'clear; no repeats; every recorded site valid and requested; every valid request recorded; the sequence never '
              'changes; phosphosequence has E at exactly those positions; the distribution has 2^k entries in binary counting '
              'order (first site most significant) each being the correspondingly substituted sequence. Tie: source fingerprints; '
              'histories replayed on real objects and compared step by step inside Coq.')
LEVEL_NOTE_MINIPY = ' Whole-function semantic ties (source translated to Core/MiniPy terms on every run, proved equal to the model for all inputs): setPhosPhoSites, clear/get_phosphosites, get_phosphosequence, get_STY_residues, kappa_at_maxPhos, calculateKappaDistOfPhosphoStates (entry j = the j-th digit tuple of the binary counting order, computed on the sequence with E at exactly the chosen sites).'
LEVEL_NOTE = 'Closed under the global context. D4 (range guard) was a genuine defect, fixed in /repo; its witness is replayed every run.'
TECHNIQUE = 'Coq proof (fold_left invariants over op lists, nth_error, binary counting induction) + in-Coq history correspondence'

IMPORTS = ('From Coq Require Import List ZArith QArith String.\n'
           'From LC Require Import Core.Residue Model.Phospho.\n'
           'Import ListNotations. Local Open Scope Z_scope. Local Open Scope string_scope.')


def rich(rng, n):
    return ''.join(rng.choice('STY' if rng.random() < 0.35 else AAS) for _ in range(n))


def positions(rng, s):
    N = len(s)
    pool = [0, -1, -N, -N - 1, 1, N, N + 1, N + 7] + [i + 1 for i, c in enumerate(s) if c in 'STY'] * 2 + \
           [rng.randint(1, N) for _ in range(3)]
    k = rng.randint(1, 5)
    return [rng.choice(pool) for _ in range(k)]


def _hist(args):
    seq, ops, want_dist = args

    def f():
        o = SP(seq)
        rec = []
        for kind, arg in ops:
            kk = None
            if kind == 'set':
                o.set_phosphosites(arg)
            elif kind == 'clear':
                o.clear_phosphosites()
            else:
                kk = (fnum(o.get_kappa()), fnum(o.get_kappa_after_phosphorylation())) if arg == 0 else \
                     (fnum(o.get_kappa_after_phosphorylation()), fnum(o.get_kappa()))[::-1]
                if want_dist and len(o.get_phosphosites()) <= want_dist:
                    o.get_full_phosphostatus_kappa_distribution()      # asked mid-history too; the final one is what Coq compares
            rec.append(([int(x) for x in o.get_phosphosites()], o.get_phosphosequence(), o.get_sequence(), kk))
        ka = fnum(o.get_kappa_after_phosphorylation())
        stys = [int(x) for x in o.get_all_phosphorylatable_sites()]
        dist = None
        if want_dist and len(rec[-1][0]) <= want_dist:
            dist = [tuple(fnum(x) for x in e[:6]) + (''.join(e[6]),) for e in o.get_full_phosphostatus_kappa_distribution()]
        return rec, ka, stys, dist
    return call(f, seconds=120)


def build(ctx):
    rng = ctx.rng
    jobs = []
    for _ in range(ctx.pick(250, 1500)):
        s = rich(rng, rng.randint(1, 24))
        ops = []
        for _ in range(rng.randint(1, 6)):
            r = rng.random()
            if r < 0.2:
                ops.append(('clear', None))
            elif r < 0.45:
                ops.append(('query', rng.randrange(2)))     # read-only queries interleaved (order of the two varies)
            else:
                p = positions(rng, s)
                form = rng.random()
                ops.append(('set', p[0] if form < 0.2 else tuple(p) if form < 0.4 else p))
        jobs.append((s, ops, ctx.pick(4, 6)))
    # the same site set entered in two different orders around a clear, with the distribution asked in between
    for _ in range(ctx.pick(40, 200)):
        s = rich(rng, rng.randint(4, 24))
        sty = [i + 1 for i, c in enumerate(s) if c in 'STY']
        if len(sty) < 2:
            continue
        sites = rng.sample(sty, rng.randint(2, min(3, len(sty))))
        perm = sites[::-1] if rng.random() < 0.5 else rng.sample(sites, len(sites))
        mid = [('clear', None)] if rng.random() < 0.7 else [('clear', None), ('set', sites[:1]), ('query', 1), ('clear', None)]
        jobs.append((s, [('set', sites), ('query', rng.randrange(2))] + mid + [('set', tuple(perm))], 4))
    jobs.append(('SKKKYKKT', [('set', [0]), ('query', 0), ('set', [-1, -8, 9, 100]), ('set', 5), ('query', 1), ('set', (5, 1, 1))], 4))
    res = pmap(_hist, jobs, chunk=8)
    cases = []
    ctx.direct_failures = []
    for (s, ops, _), (st, v) in zip(jobs, res):
        d = {'sequence': s, 'ops': [[k, a if not isinstance(a, tuple) else list(a)] for k, a in ops], 'impl': [st, v]}
        if st != 'ok':
            ctx.direct_failures.append(d)
            continue
        rec, ka, stys, dist = v
        try:
            hs = []
            for (kind, arg), (sites, ps, sq_, kk) in zip(ops, rec):
                req = [arg] if isinstance(arg, int) else list(arg or [])
                op = 'PClear' if kind == 'clear' else 'PQuery' if kind == 'query' else '(PSet %s)' % clist(cz(x) for x in req)
                ck = 'None' if kk is None else '(Some (%s, %s))' % (cq(kk[0]), cq(kk[1]))
                hs.append('(%s, (%s, %s, %s, %s))' % (op, clist(cz(x) for x in sites), cstr(ps), cstr(sq_), ck))
            if dist is None:
                cd = 'None'
            else:
                cd = '(Some %s)' % clist('(%s, %s)' % (', '.join(cq(x) for x in e[:6]), clist(cbool(c == '1') for c in e[6]))
                                         for e in dist)
            coq = '(%s, %s, %s, %s, %s)' % (cstr(s), clist(hs), cq(ka), clist(cz(x) for x in stys), cd)
        except Exception:
            ctx.direct_failures.append(d)
            continue
        cases.append(Case(coq, d, key=(s, repr(ops)), nontrivial=any(r[0] for r in rec)))
    return [CaseSet('C16', IMPORTS, 'string * list (pop * (list Z * string * string * option (Q * Q))) * Q * list Z * option (list entry)',
                    'check_c16', cases, shard=40)]


def search(ctx, broken, cases):
    for c in cases:
        s = c.descr['sequence']
        st, (rec, ka, stys, dist) = c.descr['impl']
        cur = []
        for (kind, arg), (sites, ps, sq_, kk) in zip(c.descr['ops'], rec):
            if kind == 'query':
                pass
            elif kind == 'clear':
                cur = []
            else:
                for p in ([arg] if isinstance(arg, int) else arg):
                    if 1 <= p <= len(s) and s[p - 1] in 'STY' and p not in cur:
                        cur.append(p)
            exp_ps = ''.join('E' if i + 1 in cur else ch for i, ch in enumerate(s))
            if sites != cur or ps != exp_ps or sq_ != s:
                return {'kind': 'phosphosite-bookkeeping', 'sequence': s, 'ops': c.descr['ops'],
                        'observed': [sites, ps, sq_], 'expected': [cur, exp_ps, s]}
        if dist is not None and len(dist) != 2 ** len(cur):
            return {'kind': 'distribution-size', 'sequence': s, 'ops': c.descr['ops'], 'entries': len(dist)}
    return None


def replay_fixed(ctx, fnd):
    if fnd.get('id') == 'D4':
        w = fnd['witness']
        st, v = _hist((w, [('set', [0]), ('set', [-1, len(w) + 1])], 0))
        if st != 'ok' or v[0][-1][0] != []:
            return {'sequence': w, 'ops': 'set_phosphosites([0]); set_phosphosites([-1, N+1])', 'result': [st, repr(v)[:300]]}
    return None


def replay(ctx, obj):
    return obj
