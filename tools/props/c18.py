"""C18 — Wang–Landau runs: the guarded per-step trace (hook) + RNG tape are replayed through the Coq model."""
import math
import os
import shutil
from harness.util import *
from harness import gen_seq
from harness.rngshim import Tape, install
from runner import Case, CaseSet

ID = 'C18'
OBLIGATIONS = ['Props/C18.v', 'Props/Tie/wl_tie.v', 'Props/Tie/minipy_wl_tie.v', 'Props/Tie/minipy_wlsetup_tie.v']
RULE = ('short sequences (N 8..18) x nbins 2..6 x bin ranges inside [0,1] (the machine\'s nbins_actual / relevant_min are compared with the model\'s geometry of the REQUESTED range) x flat-check period 50..300 x flatness criterion 0.1..0.6 x '
        'convergence exp(2^-m)(1+-1e-3), m = 1..3, each under a seeded RNG tape (quick 6 runs, thorough 30); every step of every run '
        'is one replayed record; non-trivial = distinct run with >= 1 accepted and >= 1 rejected in-range proposal and >= 1 passed flat check')
TRUSTED = ['the guarded trace hook in run_normal_WL (LOCALCIDER_VERIF=1, add-only) and the RNG tape shim',
           'float glue (Python): acceptProb == exp(g_old - g_new) to 1e-9, f after k passed checks == exp(2^-k), log files parsed at printed precision']
ASSUMPTIONS = ['the probabilistic clause is verified as the decision rule u < acceptProb for every recorded u, not as a frequency',
               'ZOOM mode and run_permutant_generator are outside the property text']
LEVEL_TEXT = ('Proof (for every event list meeting the side conditions): the current sequence always has the input\'s residue counts; a move '
              'is accepted only into an in-range bin; sum(H) = counted steps since the last reset; g = g_at_iteration_start + 2^-k * H '
              'pointwise (so per-iteration g increments = ln f x final histogram); k grows exactly at passed flat checks; bin centres are '
              'the midpoints (2i+1)/(2n). Tie: weights/flatness/sqrt/log shapes from source; complete runs on the real machine are replayed '
              'step by step inside Coq (bins, accept decisions, g, H, flat checks, returned array) and the six log files are cross-checked.')
LEVEL_NOTE = 'Closed under the global context. exp/log/f**0.5 are float glue; Mersenne twister replaced by the tape.'
LEVEL_NOTE_MINIPY = (' Set-up (minipy_wlsetup_tie.v, setup_tie): every statement of run_normal_WL before the loop leaves g and H all zero with one entry per bin, f = e, all counters zero, the current object built from the permutant the delta-max search returns and idx_old the nearest bin of its kappa, for any oracles. Whole-function ties (minipy_wl_tie.v): indexInsideRelevantRegion, __run_flatcheck and the whole body of the while-loop of run_normal_WL are translated into '
                     'Core/MiniPy.v terms on every run; one iteration = Model.WL.wl_step for every state and every oracle outcome (moves, kappa, nearest centre, np.exp, uniform draws).')
TECHNIQUE = 'Coq proof (state-machine invariants over event lists) + trace-hook replay correspondence'

IMPORTS = ('From Coq Require Import List ZArith QArith String.\n'
           'From LC Require Import Core.Residue Model.WL.\n'
           'Import ListNotations. Local Open Scope Z_scope. Local Open Scope string_scope.')


def _run(args):
    seq, nbins, bmin, bmax, flatchk, crit, m, sign, seed, outdir = args[:10]
    tmo = args[10] if len(args) > 10 else 300
    import numpy as np
    import localcider.backend.sequence as S
    import localcider.backend.wang_landau as W

    def f():
        os.makedirs(outdir, exist_ok=True)
        conv = float(np.exp(2.0 ** -m)) * (1 + sign * 1e-3)
        if 'wlr' in os.path.basename(outdir):
            # an earlier run has already written its logs into this directory: the logs of the measured run must describe
            # the measured run alone (the code says they are overwritten on a restart)
            install(Tape(seed + 1), S, W)
            W._VERIF_TRACE = None
            W.WangLandauMachine(seq, outdir, set(), nbins=nbins, binmin=bmin, binmax=bmax, flatchk=flatchk,
                                flatcrit=crit, convergence=conv).run()
        tape = Tape(seed)
        install(tape, S, W)
        W._VERIF_TRACE = []
        mach = W.WangLandauMachine(seq, outdir, set(), nbins=nbins, binmin=bmin, binmax=bmax, flatchk=flatchk,
                                   flatcrit=crit, convergence=conv)
        ret = mach.run()
        trace, W._VERIF_TRACE = W._VERIF_TRACE, None
        logs = {n: open(os.path.join(outdir, n)).read() for n in ('DOS.txt', 'DOS_local.txt', 'hlog.txt', 'glog.txt', 'seqlog.txt', 'histogram_bins.txt')}
        us = [e[1] for e in tape.log if e[0] == 'random']
        cfg = {'nb_target': mach.nbins_target, 'nb_actual': int(mach.nbins_actual), 'rmin': int(mach.relevant_min),
               'rmax': int(mach.relevant_max), 'nflat': mach.nflatchk, 'crit': mach.flatcrit, 'conv': conv}
        return cfg, trace, [[float(x) for x in row] for row in ret], logs, tape.log
    st, v = call(f, seconds=min(60, tmo) if 'wlt' in os.path.basename(outdir) else tmo)
    shutil.rmtree(outdir, ignore_errors=True)
    return st, v


def analyse(seq, v):
    """Python-side glue checks; returns (problems, per-step u list, start sequence, start bin)"""
    cfg, trace, ret, logs, rlog = v
    problems = []
    steps = [e for e in trace if e[0] == 'step']
    # the uniform numbers: per step r (move choice) then, after the move's own draws, the acceptance draw.
    # the acceptance draw is the last 'random' before the next step's first one; rebuild by walking the log.
    us = []
    it = iter(rlog)
    pending = []
    randoms = [i for i, e in enumerate(rlog) if e[0] == 'random']
    # the cluster move may also call random(): identify acceptance draws as the random() immediately preceding each
    # step's move-choice random of the NEXT step, i.e. the last random() logged within the step's span.
    # spans are delimited by knowing each step consumes >= 2 randoms: first = move choice, last = acceptance.
    # Reconstruct with the trace: walk steps, greedily match.
    pos = 0
    ok_align = True
    for k, e in enumerate(steps):
        # find first random at/after pos (move choice)
        while pos < len(rlog) and rlog[pos][0] != 'random':
            pos += 1
        first = pos
        # the step ends right before the next step's move-choice random; we do not know it directly, so take the
        # last random whose value decides acceptance consistently: scan forward until the number of remaining steps
        # cannot be served any more is over-complicated — instead use the fact that after the move's internal calls the
        # acceptance draw is the next 'random' entry that is NOT followed (before the next 'random') by non-random entries
        # belonging to the same move: simplest robust rule: acceptance draw = the last 'random' entry before the next
        # entry whose kind is 'random' and which is itself followed by a move call or is the final entry.
        j = first + 1
        last_random = None
        while j < len(rlog):
            if rlog[j][0] == 'random':
                last_random = j
                # is the NEXT entry a random too (then j was the acceptance draw and j+1 the next move choice)?
                if j + 1 >= len(rlog) or rlog[j + 1][0] == 'random':
                    break
            j += 1
        if last_random is None:
            ok_align = False
            break
        us.append(rlog[last_random][1])
        pos = last_random + 1
    if not ok_align or len(us) != len(steps):
        problems.append('could not align the RNG tape with the trace')
        us = us + [0.5] * (len(steps) - len(us))
    # acceptance probability == min(1, exp(g_old - g_new)) and decision rule; f schedule; stop rule
    k = 0
    g = [0.0] * cfg['nb_actual']
    for e, u in zip(steps, us):
        _, nstep, cur, prop, io, inew, skip, ap, f, niter, acc, cur2, io2, gval, hval = e
        exp_ap = 0.0 if skip else min(1.0, math.exp(g[io] - g[inew]))
        if abs(ap - exp_ap) > 1e-9:
            problems.append({'step': nstep, 'why': 'acceptProb != min(1, exp(g_old - g_new))', 'acceptProb': ap, 'expected': exp_ap})
            break
        if acc != (u < ap):
            problems.append({'step': nstep, 'why': 'decision is not u < acceptProb', 'u': u, 'acceptProb': ap, 'accepted': acc})
            break
        if abs(f - math.exp(2.0 ** -niter)) > 1e-9:
            problems.append({'step': nstep, 'why': 'f != exp(2^-niter)', 'f': f, 'niter': niter})
            break
        if not skip:
            g[io2] += math.log(f)
    flats = [e for e in trace if e[0] == 'flat']
    if flats:
        fl = flats[-1]
        if not (fl[3] <= cfg['conv']) or any(x[3] <= cfg['conv'] for x in flats[:-1]):
            problems.append({'why': 'run did not stop exactly when f <= convergence', 'f_values': [x[3] for x in flats]})
    # returned array and logs
    cts = [(2 * i + 1) / (2 * cfg['nb_actual']) for i in range(cfg['nb_actual'])]
    if any(abs(a - b) > 1e-12 for a, b in zip(ret[0], cts)) or len(ret[0]) != cfg['nb_actual']:
        problems.append({'why': 'bin centres are not the midpoints of an equal partition of [0,1]', 'centres': ret[0]})
    dos = [l.split('\t') for l in logs['DOS.txt'].strip().split('\n')[1:]]
    if len(dos) != cfg['nb_actual'] or any(abs(float(a) - round(c, 3)) > 1e-9 or abs(float(b) - gv) > 6e-7
                                           for (a, b), c, gv in zip(dos, cts, ret[1])):
        problems.append({'why': 'DOS.txt disagrees with the returned array'})
    dl = [l.split('\t') for l in logs['DOS_local.txt'].strip().split('\n')[1:]]
    if len(dl) != cfg['nb_target'] or any(abs(float(b) - ret[1][cfg['rmin'] + i]) > 6e-7 for i, (a, b) in enumerate(dl)):
        problems.append({'why': 'DOS_local.txt is not the relevant window of g'})
    hb = [float(x) for x in logs['histogram_bins.txt'].split()]
    if len(hb) != cfg['nb_actual'] + cfg['nb_target'] or any(abs(a - b) > 6e-5 for a, b in zip(hb, cts + cts[cfg['rmin']:cfg['rmax'] + 1])):
        problems.append({'why': 'histogram_bins.txt is not (all centres, relevant centres)'})
    # hlog: one line per flat check with Hlocal; glog: one line per passed check with g
    hl = [l for l in logs['hlog.txt'].split('\n') if l and l[0].isdigit()]
    if len(hl) != len(flats) or any([int(x) for x in l.split('\t')[1:] if x != ''] != fl[1] for l, fl in zip(hl, flats)):
        problems.append({'why': 'hlog.txt does not list the local histogram of every flat check'})
    passed = [fl for i, fl in enumerate(flats) if fl[4] > (flats[i - 1][4] if i else 0)]
    gl = [l for l in logs['glog.txt'].split('\n')[1:] if l.strip()]
    if len(gl) != len(passed) or any(any(abs(float(x) - y) > 6e-5 for x, y in zip(l.split('\t')[1:], fl[5])) for l, fl in zip(gl, passed)):
        problems.append({'why': 'glog.txt does not hold g at the end of every iteration'})
    # per-iteration increments of g == ln f * final histogram of that iteration (on the relevant window)
    prev = [0.0] * cfg['nb_actual']
    for n, fl in enumerate(passed):
        lnf = 2.0 ** -n
        inc = [a - b for a, b in zip(fl[5], prev)]
        if any(abs(inc[cfg['rmin'] + i] - lnf * h) > 1e-9 for i, h in enumerate(fl[1])):
            problems.append({'why': 'g increment of an iteration != ln f x its final histogram', 'iteration': n + 1})
        prev = fl[5]
    # seqlog: every logged sequence carries its true kappa (3 decimals) and is a rearrangement of the input
    for l in logs['seqlog.txt'].strip().split('\n')[1:]:
        kv, sq_ = l.split('\t')
        st, kk = call(lambda: fnum(SP(sq_).get_kappa()))
        if sorted(sq_) != sorted(seq) or st != 'ok' or abs(float(kv) - kk) > 5.1e-4:
            problems.append({'why': 'seqlog line with wrong kappa / not a rearrangement', 'line': l, 'kappa': kk})
    return problems, us, steps, flats


def _ambiguous_tie(flats, crit):
    """is there a flat check at which a bin equals criterion x mean exactly while the floats cannot be trusted to say so?"""
    from fractions import Fraction
    cdec = Fraction(repr(float(crit)))
    exact_crit = (Fraction(float(crit)) == cdec)
    for fl in flats:
        hl = fl[1]
        tot, nb = sum(hl), len(hl)
        if tot == 0:
            continue
        mean = Fraction(tot, nb)
        mean_exact = (mean.denominator & (mean.denominator - 1)) == 0 and mean.numerator < 2 ** 53
        for h in hl:
            if Fraction(h) == cdec * mean and not (exact_crit and mean_exact):
                return True
    return False


def build(ctx):
    rng = ctx.rng
    jobs = []
    for i in range(ctx.pick(6, 30)):
        seq = gen_seq.polyampholyte(rng, rng.randint(8, 18))
        if sum(c in 'KR' for c in seq) < 2 or sum(c in 'DE' for c in seq) < 2 or len(set(seq)) < 3:
            seq = 'EKEKGGEKEKSSDRKE'[:rng.randint(10, 16)]
        nb = rng.randint(2, 6)
        width = rng.choice([0.1, 0.2]) if nb <= 4 else 0.1
        lo = rng.choice([0.0, 0.1, 0.2, 0.3])
        jobs.append((seq, nb, lo, round(lo + nb * width, 10), rng.choice([50, 100, 200, 300]), rng.choice([0.1, 0.2, 0.3, 0.5, 0.6]),
                     rng.randint(1, 3), rng.choice([-1, 1]), rng.randrange(10 ** 9), os.path.join(ctx.work, 'wl%d' % i)))
    # exact ties at a check (emptiest bin holds exactly crit * mean): dyadic criteria with short check periods, and the
    # boundary criterion 0 (every check with an empty bin is then a tie)
    for i, (chk, crit) in enumerate([(10, 0.0), (20, 0.0), (10, 0.5), (20, 0.5), (30, 0.25), (40, 0.5)][:ctx.pick(6, 6)]):
        seq = 'EKEKGGEKEKSSDRKE'[:rng.randint(10, 16)] if i % 2 else gen_seq.polyampholyte(rng, rng.randint(8, 14))
        if sum(c in 'KR' for c in seq) < 2 or sum(c in 'DE' for c in seq) < 2 or len(set(seq)) < 3:
            seq = 'EKEKGGEKEKSSDRKE'[:12]
        nb = rng.randint(2, 3)
        lo = rng.choice([0.0, 0.1])
        jobs.append((seq, nb, lo, round(lo + nb * 0.1, 10), chk, crit, rng.randint(1, 2), rng.choice([-1, 1]), rng.randrange(10 ** 9),
                     os.path.join(ctx.work, 'wlt%d' % i)))
    # one long first iteration: ln(DOS) of a bin passes 710, where exp() of it overflows a double (the rule itself only
    # needs exp of the DIFFERENCE)
    jobs.append(('EKEKAAKKEE', 2, 0.0, 1.0, 2000, rng.choice([0.1, 0.2]), 1, 1, rng.randrange(10 ** 9), os.path.join(ctx.work, 'wll0')))
    # a requested width that does not divide 1: the partition of [0,1] is then round(1/width) equal bins, not the requested ones
    jobs.append(('EEEEKKKKGGGG', 3, 0.0, 0.9, rng.choice([50, 100]), 0.2, 1, 1, rng.randrange(10 ** 9), os.path.join(ctx.work, 'wlw0')))
    jobs.append(('EKEKGGEKEKSSDR', 3, 0.1, 0.8, rng.choice([50, 100]), 0.1, 1, -1, rng.randrange(10 ** 9), os.path.join(ctx.work, 'wlw1')))
    jobs.append(('EKGDRSEKNQ', 4, 0.0, 0.4, 50, 0.3, 1, 1, rng.randrange(10 ** 9), os.path.join(ctx.work, 'wlr0')))
    # 1 / binWidth an exact half (2.5): Python's round() goes to the even neighbour; the model accepts either neighbour there
    jobs.append(('EKEKGGEKEKSSDR', 2, 0.1, 0.9, 50, 0.3, 1, 1, rng.randrange(10 ** 9), os.path.join(ctx.work, 'wlh0')))
    tmo = ctx.pick(90, 300)       # a run that has not converged by then is skipped (counted in notes.timeouts), not failed
    jobs = [j + (tmo,) for j in jobs]
    res = pmap(_run, jobs, chunk=1)
    cases = []
    ctx.direct_failures = []
    for job, (st, v) in zip(jobs, res):
        seq = job[0]
        d = {'sequence': seq, 'nbins': job[1], 'binmin': job[2], 'binmax': job[3], 'flatchk': job[4], 'flatcrit': job[5],
             'convergence_exponent': job[6], 'tape_seed': job[8]}
        if st != 'ok':
            d['impl'] = [st, v]
            if st == 'timeout':
                ctx.notes['timeouts'] = ctx.notes.get('timeouts', 0) + 1     # a run that does not converge in time is not a failure
                continue
            ctx.direct_failures.append(d)
            continue
        cfg, trace, ret, logs, rlog = v
        problems, us, steps, flats = analyse(seq, v)
        d.update({'steps': len(steps), 'flat_checks': len(flats), 'iterations': flats[-1][4] if flats else 0, 'config': cfg})
        if _ambiguous_tie(flats, job[5]):
            # a relevant bin holds EXACTLY criterion x mean and the float quotient count / mean may round to either side of the
            # float criterion: the machine's decision there is rounding-dependent, the exact model cannot arbitrate
            ctx.notes['rounding_dependent_ties_skipped'] = ctx.notes.get('rounding_dependent_ties_skipped', 0) + 1
            continue
        if problems:
            d['problems'] = problems[:3]
            ctx.direct_failures.append(d)
            continue
        recs = []
        ui = iter(us)
        for e in trace:
            if e[0] == 'step':
                _, nstep, cur, prop, io, inew, skip, ap, f, niter, acc, cur2, io2, gval, hval = e
                recs.append('(RStep {| e_prop := sq %s; e_idx := %s; e_skip := %s; e_ap := %s; e_u := %s; e_acc := %s |} %s %s %s)' % (
                    cstr(prop), cnat(inew), cbool(skip), cq(ap), cq(next(ui)), cbool(acc), cnat(io2), cq(gval), cz(hval)))
            else:
                _, hl, fn, f, ni, gall = e
                recs.append('(RFlat %s %s %s %s)' % (clist(cz(x) for x in hl), cnat(fn), cnat(ni), clist(cq(x) for x in gall)))
        start, idx0 = steps[0][2], steps[0][4]
        ccfg = '{| nb_target := %s; nb_actual := %s; rmin := %s; nflat := %s; crit := %s |}' % (
            cnat(cfg['nb_target']), cnat(cfg['nb_actual']), cnat(cfg['rmin']), cnat(cfg['nflat']), cq(cfg['crit']))
        from fractions import Fraction
        rq = lambda x: '(%d # %d)' % (Fraction(repr(x)).numerator, Fraction(repr(x)).denominator)   # the decimal the caller wrote
        coq = '(%s, (%s, %s), %s, %s, %s, %s, (%s, %s))' % (ccfg, rq(job[2]), rq(job[3]), cstr(seq), cstr(start), cnat(idx0), clist(recs),
                                                   clist(cq(x) for x in ret[0]), clist(cq(x) for x in ret[1]))
        acc_n = sum(1 for e in steps if e[10])
        rej_n = sum(1 for e in steps if not e[10] and not e[6])
        cases.append(Case(coq, d, key=(seq, job[8]), nontrivial=(acc_n >= 1 and rej_n >= 1 and d['iterations'] >= 1)))
    ctx.notes['steps_replayed'] = sum(c.descr['steps'] for c in cases)
    return [CaseSet('C18', 'From LC Require Import Model.DeltaCheck.\n' + IMPORTS,
                    'wlcfg * (Q * Q) * string * string * nat * list rec * (list Q * list Q)', 'check_c18', cases, shard=1)]


def search(ctx, broken, cases):
    return None


def replay(ctx, obj):
    return obj
