"""C19 — plots: artists handed to matplotlib (Agg) carry the true coordinates / strings; the drawn
regions classify the markers; linear plots draw the profiles."""
import os
from harness.util import *
from harness import gen_seq
from runner import Case, CaseSet

ID = 'C19'
OBLIGATIONS = ['Props/C19.v', 'Props/Tie/plots_tie.v', 'Props/Tie/region_tie.v']
RULE = ('every composition (n+, n-, N) with N <= B (quick 14, thorough 26) realised as a sequence: show_phaseDiagramPlot(getFig=True) '
        'artists (marker offsets, five patches, title, label, axis limits) + get_phasePlotRegion; a sample of them also through '
        'show_uverskyPlot, save_phaseDiagramPlot / save_uverskyPlot, the plots module (single and multiple, show and save) and the '
        'four linear-profile plots; non-trivial = distinct composition / entry point call with non-default arguments')
TRUSTED = ['matplotlib Agg backend; "draws" = the artist objects handed to matplotlib carry these coordinates and strings',
           'point-in-polygon re-evaluated inside Coq on the vertices taken from the drawn patches']
ASSUMPTIONS = ['file format of save_* is outside the statement (plots.save_multiple_uverskyPlot2 does not forward saveFormat — noted, not a C19 violation)']
LEVEL_TEXT = ('Proof (over Q, all fractions with f+, f- >= 0, f+ + f- <= 1): the marker lies inside the closed polygon of the region the '
              'classifier assigns, and a point strictly inside a polygon is classified into it. Tie: the plt.fill vertex lists from '
              'source equal the specified polygons; the argument-binding table of all 30 show_/save_ entry points (resolved against '
              'the callee definitions) forwards coordinates, labels, title, limits, getFig/filename. Dynamic: figures built on real '
              'objects are inspected and the drawn patches re-checked in Coq for every small composition.')
LEVEL_NOTE = 'Closed under the global context. Rendering is not modelled; D8 (title dropped with getFig) was a genuine defect, fixed.'
TECHNIQUE = 'Coq proof (linear arithmetic over Q on polygon half-planes) + static forwarding-table tie + artist inspection'

IMPORTS = ('From Coq Require Import List ZArith QArith.\n'
           'From LC Require Import Core.Residue Spec.Polygons Model.PlotCheck.\n'
           'Import ListNotations. Local Open Scope Z_scope.')


def _fig_info(plt):
    ax = plt.gca()
    offs = [tuple(float(v) for v in o) for c in ax.collections for o in c.get_offsets()]
    patches = [[(float(x), float(y)) for x, y in p.get_xy()] for p in ax.patches]
    info = {'offsets': offs, 'patches': patches, 'title': ax.get_title(), 'xlim': tuple(float(v) for v in ax.get_xlim()),
            'ylim': tuple(float(v) for v in ax.get_ylim()), 'texts': [t.get_text() for t in ax.texts],
            'legend': ax.get_legend() is not None}
    plt.close('all')
    return info


def _phase(args):
    seq, label, title, xl, yl, legend = args
    import matplotlib
    matplotlib.use('Agg')

    def f():
        o = SP(seq)
        r = o.show_phaseDiagramPlot(label=label, title=title, legendOn=legend, xLim=xl, yLim=yl, getFig=True)
        if r is None:
            return None
        info = _fig_info(r)
        info['region'] = int(o.get_phasePlotRegion())
        info['fp'], info['fn'] = fnum(o.get_fraction_positive()), fnum(o.get_fraction_negative())
        return info
    return call(f, seconds=60)


def _others(args):
    """uversky, save variants, plots module, linear plots for one sequence; returns a list of problems"""
    seq, work = args
    import matplotlib
    matplotlib.use('Agg')
    import numpy as np
    from localcider import plots
    problems = []

    def f():
        o = SP(seq)
        fp, fn = fnum(o.get_fraction_positive()), fnum(o.get_fraction_negative())
        mnc, uh = fnum(o.get_mean_net_charge()), fnum(o.get_uversky_hydropathy())
        r = o.show_uverskyPlot(label='lab', title='UT', xLim=0.9, yLim=0.8, getFig=True)
        if r is None:
            problems.append('show_uverskyPlot(getFig=True) returned None')
        else:
            i = _fig_info(r)
            if i['offsets'] != [(mnc, uh)] or i['title'] != 'UT' or i['xlim'] != (0.0, 0.9) or i['ylim'] != (0.0, 0.8) or i['texts'] != ['lab']:
                problems.append({'show_uverskyPlot': i, 'expected_marker': (mnc, uh)})
        for nm, fn_, exp in (('plots.show_single_phasePlot', lambda: plots.show_single_phasePlot(fp, fn, 'L', 'TT', False, 0.7, 0.6, 9, True), (fp, fn)),
                             ('plots.show_single_uverskyPlot', lambda: plots.show_single_uverskyPlot(uh, mnc, 'L', 'TT', False, 0.7, 0.6, 9, True), (mnc, uh))):
            r = fn_()
            if r is None:
                problems.append(nm + ' returned None with getFig')
                continue
            i = _fig_info(r)
            if i['offsets'] != [exp] or i['title'] != 'TT' or i['xlim'] != (0.0, 0.7) or i['ylim'] != (0.0, 0.6) or i['texts'] != ['L'] or i['legend']:
                problems.append({nm: i, 'expected_marker': exp})
        o2 = SP(seq[::-1] + 'EK')
        pts = [(fnum(x.get_fraction_positive()), fnum(x.get_fraction_negative())) for x in (o, o2)]
        r = plots.show_multiple_phasePlot2([o, o2], ['a', 'b'], 'MT', True, 1, 1, 8, True)
        if r is None:
            problems.append('plots.show_multiple_phasePlot2 returned None with getFig')
        else:
            i = _fig_info(r)
            if i['offsets'] != pts or i['title'] != 'MT' or i['texts'] != ['a', 'b']:
                problems.append({'plots.show_multiple_phasePlot2': i, 'expected': pts})
        r = plots.show_multiple_phasePlot([p[0] for p in pts], [p[1] for p in pts], ['a', 'b'], 'MT2', True, 1, 1, 8, True)
        if r is None or _fig_info(r)['offsets'] != pts:
            problems.append('plots.show_multiple_phasePlot markers')
        # label-less calls with different numbers of points, one after the other (shared default arguments)
        for objs in ([o, o2, o], [o, o2], [o], [o2, o, o2, o]):
            for nm, fn_, getp in (('plots.show_multiple_phasePlot2', plots.show_multiple_phasePlot2,
                                   lambda x: (fnum(x.get_fraction_positive()), fnum(x.get_fraction_negative()))),
                                  ('plots.show_multiple_uverskyPlot2', plots.show_multiple_uverskyPlot2,
                                   lambda x: (fnum(x.get_mean_net_charge()), fnum(x.get_uversky_hydropathy())))):
                st_, r_ = call(lambda: fn_(objs, getFig=True), seconds=60)
                if st_ != 'ok' or r_ is None:
                    problems.append({nm: 'label-less call on %d sequences failed' % len(objs), 'result': [st_, repr(r_)[:120]]})
                    import matplotlib.pyplot as _p
                    _p.close('all')
                    continue
                i = _fig_info(r_)
                if i['offsets'] != [getp(x) for x in objs]:
                    problems.append({nm: i['offsets'], 'expected': [getp(x) for x in objs]})
        upts = [(fnum(x.get_mean_net_charge()), fnum(x.get_uversky_hydropathy())) for x in (o, o2)]
        r = plots.show_multiple_uverskyPlot2([o, o2], ['a', 'b'], 'MU', True, 1, 1, 8, True)
        if r is None:
            problems.append('plots.show_multiple_uverskyPlot returned None with getFig')
        else:
            i = _fig_info(r)
            if i['offsets'] != upts or i['title'] != 'MU':
                problems.append({'plots.show_multiple_uverskyPlot': i, 'expected': upts})
        # save variants: inspect the figure state just before it is written by intercepting close()
        import matplotlib.pyplot as plt
        os.makedirs(work, exist_ok=True)
        seen = {}
        real_close = plt.close

        def fake_close(*a, **k):
            ax = plt.gca()
            seen['offsets'] = [tuple(float(v) for v in o_) for c in ax.collections for o_ in c.get_offsets()]
            seen['title'] = ax.get_title()
            seen['xlim'] = tuple(float(v) for v in ax.get_xlim())
            real_close('all')
        plt.close = fake_close
        try:
            for nm, call_, exp in (('save_phaseDiagramPlot', lambda p: o.save_phaseDiagramPlot(p, 'L', 'ST', True, 0.95, 1, 10, 'png'), (fp, fn)),
                                   ('save_uverskyPlot', lambda p: o.save_uverskyPlot(p, 'L', 'ST', True, 0.95, 1, 10, 'png'), (mnc, uh)),
                                   ('plots.save_single_phasePlot', lambda p: plots.save_single_phasePlot(fp, fn, p, 'L', 'ST', True, 0.95, 1, 10, 'png'), (fp, fn))):
                seen.clear()
                path = os.path.join(work, '%s_%d.png' % (nm.replace('.', '_'), os.getpid()))
                call_(path)
                if not os.path.exists(path):
                    problems.append(nm + ': no file written')
                else:
                    os.unlink(path)
                if seen.get('offsets') != [exp] or seen.get('title') != 'ST' or seen.get('xlim') != (0.0, 0.95):
                    problems.append({nm: dict(seen), 'expected_marker': exp})
            # the remaining module-level save functions: the markers in the figure that is written are the sequences' own points
            for nm, call_, exp in (('plots.save_single_uverskyPlot', lambda p: plots.save_single_uverskyPlot(uh, mnc, p), [(mnc, uh)]),
                                   ('plots.save_multiple_phasePlot', lambda p: plots.save_multiple_phasePlot([q[0] for q in pts], [q[1] for q in pts], p, ['a', 'b']), list(pts)),
                                   ('plots.save_multiple_phasePlot2', lambda p: plots.save_multiple_phasePlot2([o, o2], p, ['a', 'b']), list(pts)),
                                   ('plots.save_multiple_uverskyPlot', lambda p: plots.save_multiple_uverskyPlot([q[1] for q in upts], [q[0] for q in upts], p, ['a', 'b']), list(upts)),
                                   ('plots.save_multiple_uverskyPlot2', lambda p: plots.save_multiple_uverskyPlot2([o, o2], p, ['a', 'b']), list(upts))):
                seen.clear()
                path = os.path.join(work, '%s_%d_m' % (nm.replace('.', '_'), os.getpid()))
                call_(path)
                for q in (path, path + '.png', path + '.pdf'):
                    if os.path.exists(q):
                        os.unlink(q)
                if seen.get('offsets') != exp:
                    problems.append({nm: dict(seen), 'expected_markers': exp})
        finally:
            plt.close = real_close
            real_close('all')
        # a save (either format) followed directly by another plot, with no close of ours in between:
        # the later figure holds its own marker only
        fp2, fn2 = pts[1]
        for fmt in ('png', 'pdf'):
            for nm, call_ in (('save_phaseDiagramPlot', lambda p: o.save_phaseDiagramPlot(p, saveFormat=fmt)),
                              ('save_uverskyPlot', lambda p: o.save_uverskyPlot(p, saveFormat=fmt)),
                              ('plots.save_single_phasePlot', lambda p: plots.save_single_phasePlot(fp, fn, p, saveFormat=fmt)),
                              ('plots.save_single_uverskyPlot', lambda p: plots.save_single_uverskyPlot(uh, mnc, p, saveFormat=fmt)),
                              ('plots.save_multiple_phasePlot', lambda p: plots.save_multiple_phasePlot([fp, fp2], [fn, fn2], p, ['a', 'b'], saveFormat=fmt)),
                              ('plots.save_multiple_phasePlot2', lambda p: plots.save_multiple_phasePlot2([o, o2], p, ['a', 'b'], saveFormat=fmt)),
                              ('plots.save_multiple_uverskyPlot', lambda p: plots.save_multiple_uverskyPlot([uh, uh], [mnc, mnc], p, ['a', 'b'], saveFormat=fmt)),
                              ('plots.save_multiple_uverskyPlot2', lambda p: plots.save_multiple_uverskyPlot2([o, o2], p, ['a', 'b'], saveFormat=fmt))):
                path = os.path.join(work, 'seq_%s_%d.%s' % (nm.replace('.', '_'), os.getpid(), fmt))
                st_, r_ = call(lambda: call_(path), seconds=60)
                for q in (path, path + '.' + fmt):
                    if os.path.exists(q):
                        os.unlink(q)
                if st_ != 'ok':
                    problems.append({nm: 'save as %s failed' % fmt, 'result': [st_, repr(r_)[:120]]})
                    plt.close('all')
                    continue
                r = o2.show_phaseDiagramPlot(getFig=True)
                i = _fig_info(r) if r is not None else None
                if i is None or i['offsets'] != [(fp2, fn2)] or len(i['patches']) != 5:
                    problems.append({'after ' + nm + ' (' + fmt + ')': 'the next phase diagram does not hold exactly its own marker',
                                     'figure': i, 'expected_marker': (fp2, fn2)})
        # linear plots
        w = min(5, len(seq))
        for nm, show, getter in (('NCPR', o.show_linearNCPR, o.get_linear_NCPR), ('FCR', o.show_linearFCR, o.get_linear_FCR),
                                 ('sigma', o.show_linearSigma, o.get_linear_sigma), ('hydropathy', o.show_linearHydropathy, o.get_linear_hydropathy)):
            r = show(w, getFig=True)
            if r is None:
                problems.append('show_linear%s(getFig=True) returned None' % nm)
                continue
            ax = r.gca()
            bars = [(float(p.get_x() + p.get_width() / 2), float(p.get_height())) for p in ax.patches]
            r.close('all')
            prof = np.asarray(getter(w), dtype=float)
            exp = [(float(a), float(b)) for a, b in zip(prof[0], prof[1])]
            if len(bars) != len(seq) or any(abs(a[0] - b[0]) > 1e-9 or abs(a[1] - b[1]) > 1e-12 for a, b in zip(bars, exp)):
                problems.append({'linear plot': nm, 'bars': bars[:6], 'profile': exp[:6]})
        return problems
    st, v = call(f, seconds=120)
    return problems if st == 'ok' else [{'failed': [st, v]}]


def build(ctx):
    rng = ctx.rng
    comps = list(gen_seq.compositions_upto(ctx.pick(14, 26)))
    jobs = []
    for c in comps:
        s = gen_seq.spell(rng, gen_seq.arrange(rng, c))
        if rng.random() < 0.3:
            jobs.append((s, rng.choice(['', 'seq1', 'a label']), rng.choice(['Diagram of states', 'My title']),
                         rng.choice([1, 0.8, 0.5]), rng.choice([1, 0.9]), rng.random() < 0.5))
        else:
            jobs.append((s, '', 'Diagram of states', 1, 1, True))
    res = pmap(_phase, jobs, chunk=16)
    cases = []
    ctx.direct_failures = []
    for c, (s, label, title, xl, yl, legend), (st, v) in zip(comps, jobs, res):
        d = {'composition': list(c), 'sequence': s, 'args': {'label': label, 'title': title, 'xLim': xl, 'yLim': yl, 'legendOn': legend}}
        if st != 'ok' or v is None:
            d['impl'] = [st, v]
            d['why'] = 'show_phaseDiagramPlot(getFig=True) failed or returned None'
            ctx.direct_failures.append(d)
            continue
        why = []
        if v['offsets'] != [(v['fp'], v['fn'])]:
            why.append('marker not at (f+, f-)')
        if v['title'] != title or v['xlim'] != (0.0, float(xl)) or v['ylim'] != (0.0, float(yl)) or v['texts'] != ([label] if label else []) \
                or v['legend'] != legend:
            why.append('title / limits / label / legend not as requested')
        if len(v['patches']) != 5:
            why.append('not five regions')
        if why:
            d['why'], d['figure'] = why, {k: v[k] for k in ('offsets', 'title', 'xlim', 'ylim', 'texts', 'legend', 'fp', 'fn')}
            ctx.direct_failures.append(d)
            continue
        pt = lambda p: '(%s, %s)' % (cq(p[0]), cq(p[1]))
        patches = clist(clist(pt(p) for p in poly[:-1]) for poly in v['patches'])
        d['region'] = v['region']
        cases.append(Case('(%s, %s, %s, %s, %s, %s, %s)' % (cz(c[0]), cz(c[1]), cz(sum(c)), cq(v['fp']), cq(v['fn']), cz(v['region']), patches), d, key=c,
                          nontrivial=True))
    os.makedirs(os.path.join(ctx.work, 'plots'), exist_ok=True)
    sample = [j[0] for j in rng.sample(jobs, ctx.pick(24, 120)) if len(j[0]) >= 1]
    pres = pmap(_others, [(s, os.path.join(ctx.work, 'plots')) for s in sample], chunk=2)
    for s, pr in zip(sample, pres):
        if pr:
            ctx.direct_failures.append({'sequence': s, 'entry_point_problems': pr[:3]})
    ctx.notes['sequences_through_all_entry_points'] = len(sample)
    return [CaseSet('C19', IMPORTS, 'Z * Z * Z * Q * Q * Z * list (list pt)', 'check_c19', cases, shard=400)]


def search(ctx, broken, cases):
    return None


def replay_fixed(ctx, fnd):
    if fnd.get('id') == 'D8':
        st, v = _phase((fnd['witness'], 'x', 'T', 1, 1, True))
        if st != 'ok' or v is None or v['title'] != 'T':
            return {'call': "show_phaseDiagramPlot(label='x', title='T', getFig=True)", 'result': [st, repr(v)[:300]]}
    return None


def replay(ctx, obj):
    return obj
