"""C05 — class-respelling, reversal and charge-inversion invariance (metamorphic on the implementation,
and each side compared with the model inside Coq)."""
from harness.util import *
from harness import gen_seq
from runner import Case, CaseSet

ID = 'C05'
OBLIGATIONS = ['Props/C05.v', 'Props/Tie/charge_tie.v', 'Props/Tie/recode_tie.v', 'Props/Tie/deltamax_tie.v', 'Props/Tie/minipy_kappax_tie.v']
RULE = ('inputs: +/-/0 patterns of length 5..n (quick: 320 sampled from n<=7; thorough: all, n<=8) with random spellings + random class '
        'sequences (N <= 40); each with 5 transforms: class-preserving respelling, Omega-class respelling, reversal, '
        'charge inversion, reversal+inversion; observables kappa, delta, delta-max, SCD, Omega on x and T(x); '
        'non-trivial = distinct x with some T(x) != x and a charged residue (each x carries its 5 transform pairs)')
TRUSTED = ['tolerance 1e-9; kappa comparison skipped when the exact ratio is within 1e-9 of the clamp boundaries']
ASSUMPTIONS = ['float accuracy sampled']
LEVEL_TEXT = ('Proof: delta, delta-max (unbounded dmax_swap via a delta-preserving bijection of the candidate families), kappa, SCD '
              'coefficients and Omega are invariant under reversal and charge inversion, and depend only on charge classes '
              '(Omega: on {P,E,D,K,R} membership) — theorems over the model for all sequences. Tie: charge table, Omega lists, '
              'candidate search regenerated from source; metamorphic pairs run through the real getters and compared in Coq.')
LEVEL_NOTE_MINIPY = ' Whole-function semantic ties (source translated to Core/MiniPy terms on every run, proved equal to the model for all inputs): Omega / Omega_seq.'
LEVEL_NOTE = 'Closed under the global context (no axioms). Trusts py2coq, harness transforms, tolerance 1e-9.'
TECHNIQUE = 'Coq proof (list reversal/negation algebra, candidate-family cover lemma) + in-Coq metamorphic correspondence'

IMPORTS = ('From Coq Require Import List ZArith QArith String.\n'
           'From LC Require Import Core.Residue Model.DeltaCheck Model.PatternCheck.\n'
           'Import ListNotations. Local Open Scope string_scope.')
OMEGA_IN = 'PEDKR'
OMEGA_OUT = ''.join(c for c in AAS if c not in OMEGA_IN)
INV = {'K': 'E', 'R': 'D', 'E': 'K', 'D': 'R'}


def transforms(rng, s):
    cls = lambda c: POS if c in POS else NEG if c in NEG else NEUT
    yield 'respell', (True, False), ''.join(rng.choice(cls(c)) for c in s)
    yield 'omega-respell', (False, True), ''.join(rng.choice(OMEGA_IN if c in OMEGA_IN else OMEGA_OUT) for c in s)
    yield 'reverse', (True, True), s[::-1]
    yield 'invert', (True, True), ''.join(INV.get(c, c) for c in s)
    yield 'reverse+invert', (True, True), ''.join(INV.get(c, c) for c in s[::-1])


def _five(seq):
    def f():
        o = SP(seq)
        return tuple(fnum(x) for x in (o.get_kappa(), o.get_delta(), o.get_deltaMax(), o.get_SCD(), o.get_Omega()))
    return call(f, seconds=60 if len(seq) < 500 else 1200)


def build(ctx):
    import harness.util as _U
    _U.PRELUDE = 3      # every third object (by crc32 of its sequence) answers after a query history (util.prelude)
    _U.DECORATE = 4     # every fourth sequence is handed to the constructor in another accepted spelling (util.decorate)
    _U.DERIVED = 5      # every fifth object is the all-positions-frozen shuffle of the constructed one (same sequence, sampler's code path)
    rng = ctx.rng
    pats = [p for p in gen_seq.patterns_upto(ctx.pick(7, 8)) if len(p) >= 5]
    if ctx.quick:
        pats = rng.sample(pats, 320)
    base = [gen_seq.spell(rng, p) for p in pats]
    base += gen_seq.random_classes(rng, ctx.pick(120, 600), 5, 40)
    jobs = []
    for s in base:
        for name, allp, t in transforms(rng, s):
            jobs.append((s, name, allp, t))
    uniq = sorted({s for s, _, _, _ in jobs} | {t for _, _, _, t in jobs})
    vals = dict(zip(uniq, pmap(_five, uniq, chunk=16)))
    cases = []
    ctx.direct_failures = []
    tup = lambda v: '(%s)' % ', '.join(cq(x) for x in v)
    byx = {}
    for s, name, allp, t in jobs:
        byx.setdefault(s, []).append((name, allp, t))
    for s, ts in byx.items():
        a = vals[s]
        d = {'x': s, 'kappa_delta_dmax_scd_omega(x)': list(a),
             'transforms': [{'transform': n, 'Tx': t, 'same(Tx)': list(vals[t])} for n, _, t in ts]}
        if a[0] != 'ok' or any(vals[t][0] != 'ok' for _, _, t in ts):
            ctx.direct_failures.append(d)
            continue
        tl = clist('(%s, %s, %s, %s)' % (cstr(t), cbool(f[0]), cbool(f[1]), tup(vals[t][1])) for _, f, t in ts)
        cases.append(Case('(%s, %s, %s)' % (cstr(s), tup(a[1]), tl), d, key=s,
                          nontrivial=(any(t != s for _, _, t in ts) and any(c in 'KRDE' for c in s))))
    # chains longer than 1000 residues (numpy abbreviates the text of such arrays; the in-Coq model is too slow here, so the
    # relation is checked on the implementation's values only)
    longs = []
    for i in range(ctx.pick(1, 6)):
        n = rng.randint(1001, 1300)
        x = ''.join(rng.choice('KRDEGSAQPTNKE') for _ in range(n))
        if i % 2 == 0:
            x = 'KRK' + x[3:-3] + 'GSG'
        longs.append(x)
    lj = [(x, nm, t) for x in longs for nm, _, t in transforms(rng, x) if nm in ('reverse', 'invert', 'reverse+invert', 'respell')]
    lu = sorted({x for x, _, _ in lj} | {t for _, _, t in lj})
    lv = dict(zip(lu, pmap(_five, lu, chunk=1)))
    for x, nm, t in lj:
        a, b = lv[x], lv[t]
        idx = [0, 1, 2, 3] if nm == 'respell' else range(5)
        if a[0] != 'ok' or b[0] != 'ok' or any(abs(a[1][i] - b[1][i]) > 1e-9 * max(1, abs(a[1][i])) for i in idx):
            ctx.direct_failures.append({'x': x, 'transform': nm, 'Tx': t, 'kappa_delta_dmax_scd_omega(x)': list(a), 'same(Tx)': list(b),
                                        'why': 'a chain of more than 1000 residues: parameters differ under the transform'})
    ctx.notes['long_chain_pairs'] = len(lj)
    ctx.notes['metamorphic_pairs'] = len(jobs)
    return [CaseSet('C05', IMPORTS, 'string * vals5 * list (string * bool * bool * vals5)', 'check_c05', cases, shard=40)]


def search(ctx, broken, cases):
    """the relation itself, on implementation outputs only"""
    names = ['kappa', 'delta', 'deltaMax', 'SCD', 'Omega']
    for c in cases:
        a = c.descr['kappa_delta_dmax_scd_omega(x)'][1]
        for t in c.descr['transforms']:
            b = t['same(Tx)'][1]
            idx = {'omega-respell': [4], 'respell': [0, 1, 2, 3]}.get(t['transform'], range(5))
            for i in idx:
                if abs(a[i] - b[i]) > 1e-9 * max(1, abs(a[i])):
                    if i in (0, 4) and ({round(a[i], 9), round(b[i], 9)} & {1.0}):
                        continue
                    return {'kind': 'not-invariant', 'parameter': names[i], 'x': c.descr['x'], 'transform': t['transform'],
                            'Tx': t['Tx'], 'values': [a[i], b[i]]}
    return None


def replay(ctx, obj):
    c = obj.get('case', obj)
    return {'x': c['x'], 'now': [_five(c['x'])] + [[t['transform'], t['Tx'], _five(t['Tx'])] for t in c.get('transforms', [])], 'stored': c}
