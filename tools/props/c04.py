"""C04 — composition parameters: all getters vs sum-of-table/N model; permutation pairs."""
from harness.util import *
from harness import gen_seq
from runner import Case, CaseSet

ID = 'C04'
OBLIGATIONS = ['Props/C04.v', 'Props/Tie/tables_tie.v', 'Props/Tie/charge_tie.v', 'Props/Tie/delta_formulas_tie.v', 'Props/Tie/minipy_counts_tie.v', 'Props/Tie/minipy_composition_tie.v']
RULE = ('the 20 singletons, all 400 pairs, random class sequences up to 120 (thorough 500) residues, each also as a '
        'random permutation; 18 getters per sequence; non-trivial = distinct sequence of >= 3 residues with >= 2 distinct letters')
TRUSTED = ['Spec/Tables.v: published per-residue values transcribed by hand (KD, WW, PPII x3, pKa, masses, disorder list)']
ASSUMPTIONS = ['float accuracy sampled (1e-9)']
LEVEL_TEXT = ('Proof: every literal table cell, shift/normalisation constant, residue list and the table each getter reads are '
              'proved equal to the published transcription (exhaustive, kernel evaluation); each parameter is sum-of-table/N, '
              'so permutation invariance, FCR=f++f-, NCPR=f+-f-, |NCPR|<=FCR<=1, counts summing to N, fractions summing to 1, '
              'Uversky = KD/9, FER = FCR + fP are theorems for all sequences. All 18 getters compared with the model in Coq.')
LEVEL_NOTE = 'Closed under the global context. Trusts the hand transcription of the published tables, py2coq, harness.'
LEVEL_NOTE_MINIPY = (' Whole-function ties (minipy_counts_tie.v): countPos / countNeg / countNeut / Fplus / Fminus / FCR / NCPR are translated into Core/MiniPy.v terms on every run; '
                     'for every charge pattern the counts are the numbers of positive / negative / zero entries and the fractions are the counts over the length (an exception exactly for the empty sequence); with a pH, charge_at_pH is an oracle; (minipy_composition_tie.v) meanHydropathy / uverskyHydropathy / meanWWHydropathy / FPPII_chain / molecular_weight / fraction_disorder_promoting: residue-by-residue sums of their table (tables as primitives or read from the data module) for every sequence.')
TECHNIQUE = 'Coq proof (exhaustive table tie by vm_compute + Q-sum algebra) + in-Coq differential correspondence'

IMPORTS = ('From Coq Require Import List ZArith QArith String.\n'
           'From LC Require Import Core.Residue Model.DeltaCheck Model.Composition.\n'
           'Import ListNotations. Local Open Scope string_scope.')
FIELDS = ['o_cpos', 'o_cneg', 'o_cneut', 'o_fpos', 'o_fneg', 'o_fcr', 'o_ncpr', 'o_mnc', 'o_fer', 'o_dis', 'o_fracs',
          'o_kd', 'o_uv', 'o_ww', 'o_hil', 'o_cre', 'o_kal', 'o_mw']


def _obs(seq):
    def f():
        o = SP(seq)
        fr = o.get_amino_acid_fractions()
        return [int(o.get_countPos()), int(o.get_countNeg()), int(o.get_countNeut()),
                fnum(o.get_fraction_positive()), fnum(o.get_fraction_negative()), fnum(o.get_FCR()), fnum(o.get_NCPR()),
                fnum(o.get_mean_net_charge()), fnum(o.get_fraction_expanding()), fnum(o.get_fraction_disorder_promoting()),
                sorted((str(k), fnum(v)) for k, v in fr.items()),
                fnum(o.get_mean_hydropathy()), fnum(o.get_uversky_hydropathy()), fnum(o.get_WW_hydropathy()),
                fnum(o.get_PPII_propensity('hilser')), fnum(o.get_PPII_propensity('creamer')),
                fnum(o.get_PPII_propensity('kallenbach')), fnum(o.get_molecular_weight())]
    return call(f, seconds=30)


def build(ctx):
    import harness.util as _U
    _U.PRELUDE = 3      # every third object (by crc32 of its sequence) answers after a query history (util.prelude)
    _U.DECORATE = 4     # every fourth sequence is handed to the constructor in another accepted spelling (util.decorate)
    _U.DERIVED = 5      # every fifth object is the all-positions-frozen shuffle of the constructed one (same sequence, sampler's code path)
    rng = ctx.rng
    seqs = gen_seq.singletons_and_pairs()
    rnd = gen_seq.random_classes(rng, ctx.pick(150, 800), 3, ctx.pick(120, 500))
    for s in rnd:
        t = list(s)
        rng.shuffle(t)
        seqs += [s, ''.join(t)]
    # one residue type hundreds of times over (fixed-width counters wrap at 128 / 256 / 65536 is out of reach)
    for r, n in [('G', 127), ('G', 128), ('Q', 255), ('G', 256), ('K', 257), ('E', 300), ('P', 384), ('S', 513)]:
        other = ''.join(rng.choice(AAS) for _ in range(rng.randint(0, 40)))
        t = list(r * n + other)
        rng.shuffle(t)
        seqs += [r * n, ''.join(t)]
    # a composition grid: every length 1..130 with several charged counts (counts recovered through floats go wrong on
    # particular (N, k) pairs only)
    for n in range(1, ctx.pick(131, 301)):
        for k in sorted({0, 1, 2, n, n // 2, rng.randint(0, n), rng.randint(0, n), rng.randint(0, n), rng.randint(0, n)}):
            if 0 <= k <= n:
                a = rng.randint(0, k)
                t = list('K' * a + 'E' * (k - a) + ''.join(rng.choice('GSAQPNTHC') for _ in range(n - k)))
                rng.shuffle(t)
                seqs.append(''.join(t))
    res = pmap(_obs, seqs)
    cases = []
    ctx.direct_failures = []
    for s, (st, v) in zip(seqs, res):
        d = {'sequence': s, 'getters': FIELDS, 'impl': [st, v]}
        try:
            assert st == 'ok'
            parts = [cz(v[0]), cz(v[1]), cz(v[2])] + [cq(x) for x in v[3:10]]
            parts.append(clist('(%s, %s)' % (cstr(k), cq(x)) for k, x in v[10]))
            parts += [cq(x) for x in v[11:]]
        except Exception:
            ctx.direct_failures.append(d)
            continue
        rec = '{| ' + '; '.join('%s := %s' % (f, p) for f, p in zip(FIELDS, parts)) + ' |}'
        cases.append(Case('(%s, %s)' % (cstr(s), rec), d, key=s, nontrivial=len(s) >= 3 and len(set(s)) >= 2))
    return [CaseSet('C04', IMPORTS, 'string * comp_obs', 'check_c04', cases, shard=120)]


def search(ctx, broken, cases):
    """direct: identities + permutation invariance on implementation outputs"""
    by = {}
    for c in cases:
        v = c.descr['impl'][1]
        s = c.descr['sequence']
        N = len(s)
        fr = dict(v[10])
        chk = [('counts sum', v[0] + v[1] + v[2] == N), ('FCR=f++f-', abs(v[5] - (v[3] + v[4])) < 1e-9),
               ('NCPR=f+-f-', abs(v[6] - (v[3] - v[4])) < 1e-9), ('|NCPR|<=FCR<=1', abs(v[6]) <= v[5] + 1e-12 <= 1 + 1e-9),
               ('fractions sum', abs(sum(fr.values()) - 1) < 1e-9), ('uversky=KD/9', abs(v[12] - v[11] / 9) < 1e-9),
               ('mnc=|NCPR|', abs(v[7] - abs(v[6])) < 1e-12), ('f+=count/N', abs(v[3] - v[0] / N) < 1e-12),
               ('FER=FCR+fP', abs(v[8] - (v[5] + s.count('P') / N)) < 1e-9),
               ('fractions are counts', all(abs(fr.get(a, -1) - s.count(a) / N) < 1e-12 for a in AAS))]
        for nm, ok in chk:
            if not ok:
                return {'kind': 'identity-violated', 'identity': nm, 'sequence': s, 'getters': FIELDS, 'impl': v}
        key = ''.join(sorted(s))
        if key in by:
            o = by[key]
            for i, (a, b) in enumerate(zip(o[1], v)):
                if i != 10 and abs(a - b) > 1e-9 * max(1, abs(a)):
                    return {'kind': 'not-permutation-invariant', 'getter': FIELDS[i], 'sequences': [o[0], s], 'values': [a, b]}
        by[key] = (s, v)
    return None


def replay(ctx, obj):
    c = obj.get('case', obj)
    return {'sequence': c['sequence'], 'now': _obs(c['sequence']), 'stored': c}
