"""C01 — kappa = delta/delta-max, sentinel, clamp, range.  Known finding D1 (range)."""
from fractions import Fraction
from harness.util import *
from harness import gen_seq
from runner import Case, CaseSet
from props.c02 import py_delta, sequences

ID = 'C01'
OBLIGATIONS = ['Props/C01.v', 'Props/Tie/charge_tie.v', 'Props/Tie/delta_formulas_tie.v', 'Props/Tie/deltamax_tie.v', 'Props/Tie/minipy_delta_tie.v']
RULE = ('exhaustive +/-/0 patterns of length 1..n (quick 8, thorough 10) — this includes, for every composition, its '
        'delta-maximising arrangement — plus random class sequences and homopolymers; per sequence get_kappa, get_delta, '
        'get_deltaMax; non-trivial = distinct sequence with N >= 6 and both a charged residue and delta-max > 0')
TRUSTED = ['boundary-ambiguity rule at ratio 1 and 1.1 (either branch accepted within 1e-9)',
           'known finding D1 classified by: kappa > 1 AND implementation agrees with the verified model on delta, delta-max, kappa']
ASSUMPTIONS = ['float accuracy sampled (1e-9)']
LEVEL_TEXT = ('Proof: sentinel <-> delta-max = 0, ratio-with-clamp, non-negativity, kappa <= 1 <-> delta < 1.1 delta-max, every '
              'documented arrangement in range, delta-max = 0 only for flat compositions (N <= 16 by evaluation, converse unbounded); '
              'the range clause [0,1] is REFUTED on the faithful model (C01_range_refuted, KEEEEK -> 98/53) and replayed on the real '
              'code: known finding D1. Tie: source arithmetic and candidate search translated and proved equal to the model '
              '(bounded grids); get_kappa/get_delta/get_deltaMax compared with the model inside Coq.')
LEVEL_NOTE = 'Closed under the global context. D1 is a recorded known finding (known_findings.txt); any other out-of-range kappa is reported.'
LEVEL_NOTE_MINIPY = ' Whole-function ties (minipy_delta_tie.v): sigma, deltaForm, delta and kappa are translated into Core/MiniPy.v terms on every run (every a / b read as exact rational division); for every charge pattern the translated code returns the model\'s sigma / deltaForm / delta, and kappa\'s sentinel (-1 iff deltaMax == 0) and clamp (1 iff strictly between 1 and 1.1) decisions are the model\'s, deltaMax being an oracle.'
TECHNIQUE = 'Coq proof over Q + refutation witness + translator tie + in-Coq differential correspondence'

IMPORTS = ('From Coq Require Import List ZArith QArith String.\n'
           'From LC Require Import Core.Residue Model.DeltaCheck.\n'
           'Import ListNotations. Local Open Scope string_scope.')


def _kdm(seq):
    def f():
        o, held = SPx(seq)
        return held, (fnum(o.get_kappa()), fnum(o.get_delta()), fnum(o.get_deltaMax()))
    return call(f, seconds=30)


def build(ctx):
    import harness.util as _U
    _U.PRELUDE = 3      # every third object (by crc32 of its sequence) answers after a query history (util.prelude)
    _U.DECORATE = 4     # every fourth sequence is handed to the constructor in another accepted spelling (util.decorate)
    _U.DERIVED = 5      # every fifth object is the all-positions-frozen shuffle of the constructed one (same sequence, sampler's code path)
    seqs = sequences(ctx, lmax_t=150)      # the in-Coq delta-max search is quadratic in N with a large constant
    ctx.rng.shuffle(seqs)                  # long sequences spread over the shards
    res = pmap(_kdm, seqs)
    cases = []
    ctx.direct_failures = []
    for s0, (st, v) in zip(seqs, res):
        s = s0
        if st == 'ok':
            s, v = v          # the sequence the object actually holds (a shuffled child holds another one than asked for)
        d = {'sequence': s, 'kappa_delta_deltaMax': [st, v]}
        if s != s0:
            d['object'] = 'get_shuffled_sequence() child of ' + s0
        if st != 'ok':
            ctx.direct_failures.append(d)
            continue
        k, dl, dm = v
        nt = len(s) >= 6 and any(c in 'KRDE' for c in s) and dm > 0
        cases.append(Case('(%s, %s, %s, %s)' % (cstr(s), cq(k), cq(dl), cq(dm)), d, key=(s, s != s0), nontrivial=nt))
    return [CaseSet('C01', IMPORTS, 'string * Q * Q * Q', 'check_c01', cases, shard=250)]


def post(ctx, cases, failing, known_lines):
    """range clause, evaluated on the implementation outputs"""
    bad = {id(c) for c in failing}
    d1 = [f for f in ctx.findings if f['kind'] == 'finding' and f.get('id') == 'D1']
    out, n_d1, worst = [], 0, None
    for c in cases:
        k = c.descr['kappa_delta_deltaMax'][1][0]
        if k == -1 or 0 <= k <= 1:
            continue
        if id(c) in bad:
            continue                       # reported as a disagreement already
        if k > 1 and d1:
            n_d1 += 1                      # signature: agrees with the model of the documented family, kappa > 1
            if worst is None or k > worst[1]:
                worst = (c.descr['sequence'], k)
        else:
            out.append({'kind': 'kappa-out-of-range', 'sequence': c.descr['sequence'], 'get_kappa': k})
    ctx.notes['kappa_above_1_matching_D1'] = n_d1
    if worst:
        ctx.notes['worst_D1_instance'] = list(worst)
    return out[:5]


def replay_finding(ctx, fnd):
    w = fnd.get('witness', 'KEEEEK')
    st, v = _kdm(w)
    if st == 'ok':
        v = v[1]
    still = st == 'ok' and v[0] > 1
    return still, ('id=D1 site=Sequence.deltaMax witness=%s get_kappa()=%r > 1 (delta=%r, delta-max of the documented family=%r)'
                   % (w, v[0], v[1], v[2])) if still else ''


def search(ctx, broken, cases):
    """kappa_impl must equal clamp(delta_impl/dmax_impl) / sentinel, and delta, dmax must match their definitions"""
    from props.c03 import family, _pdelta
    tol = Fraction(1, 10 ** 9)
    for c in cases:
        s = c.descr['sequence']
        st, (k, dl, dm) = c.descr['kappa_delta_deltaMax']
        if dm == 0:
            if k != -1:
                return {'kind': 'sentinel-missing', 'sequence': s, 'impl': [k, dl, dm]}
            continue
        if k == -1:
            return {'kind': 'sentinel-without-zero-deltaMax', 'sequence': s, 'impl': [k, dl, dm]}
        r = Fraction(dl) / Fraction(dm)
        exp = Fraction(1) if 1 < r < Fraction(11, 10) else r
        near = min(abs(r - 1), abs(r - Fraction(11, 10))) <= tol
        if abs(Fraction(k) - exp) > tol * max(1, exp) and not (near and (k == 1.0 or abs(Fraction(k) - r) <= tol)):
            return {'kind': 'kappa-is-not-clamped-ratio', 'sequence': s, 'impl': [k, dl, dm], 'expected': float(exp)}
    for c in cases[:3000]:
        s = c.descr['sequence']
        st, (k, dl, dm) = c.descr['kappa_delta_deltaMax']
        q = pat_of(s)
        p, n = q.count(1), q.count(-1)
        if abs(py_delta(s) - Fraction(dl)) > tol:
            return {'kind': 'delta-differs-from-definition', 'sequence': s, 'get_delta': dl}
        if len(s) <= 30:
            fam = family(p, n, len(q) - p - n)
            best = max([_pdelta(x) for x in fam]) if fam else Fraction(0)
            if abs(best - Fraction(dm)) > tol:
                return {'kind': 'deltaMax-differs-from-documented-family', 'sequence': s, 'get_deltaMax': dm,
                        'family_maximum': float(best)}
    return None


def replay(ctx, obj):
    c = obj.get('case', obj)
    s = c['sequence']
    return {'sequence': s, 'now': _kdm(s), 'stored': c}
