"""C15 — read-only query histories on one or several live objects vs freshly built objects."""
from harness.util import *
from harness import gen_seq
from runner import Case, CaseSet

ID = 'C15'
OBLIGATIONS = ['Props/C15.v', 'Props/Tie/effects_tie.v']
RULE = ('random histories (quick 150 x ~25 ops, thorough 800 x ~50) over 1-3 live objects (one of them obtained through '
        'get_shuffled_sequence so it starts with a carried delta-max); 30 query kinds with arguments; all ordered pairs of the '
        'stateful queries {kappa, deltaMax, deltaMax(True), Omega, kappa_after, distribution, composition(default), HTML} forced; '
        'after EVERY op the answer is compared with a freshly constructed object and (seq, phosphosites) with their initial '
        'values; the modelled subset (15 query kinds) is also replayed in Coq; non-trivial = distinct history with >= 2 stateful queries')
TRUSTED = ['static write-set scan is syntactic (aliases/setattr not seen; setattr/__dict__/globals occurrences are themselves reported)']
ASSUMPTIONS = ['floats from identical computations compared with 1e-12']
LEVEL_TEXT = ('Proof: with the cache invariant Inv (cached delta-max / permutant, when present, are the ones a fresh search computes), '
              'every query answers as on a fresh object and leaves sequence, phosphosites and palette unchanged, for ALL finite '
              'query histories (induction over the history) and for families of objects; the pinned cache short-circuit is refuted '
              '(D2, repaired). Tie: complete static write-set table of all methods regenerated from source (only the modelled '
              'attributes are ever written) + dynamic histories on real objects compared with fresh objects and with the model.')
LEVEL_NOTE = ('Coq kernel float primitives only (via the region query). The static scan is syntactic; runtime aliasing is covered by the '
              'dynamic histories.')
TECHNIQUE = 'Coq proof (state-machine invariant, induction over histories) + static effect table tie + differential histories'

IMPORTS = ('From Coq Require Import List ZArith QArith String.\n'
           'From LC Require Import Core.Residue Model.Obj.\n'
           'Import ListNotations. Local Open Scope Z_scope. Local Open Scope string_scope.')

# name -> (callable(o, rng-args), coq query or None, canon kind)
def _arr(v):
    import numpy as np
    if isinstance(v, tuple):
        return [_arr(x) for x in v]
    a = np.asarray(v)
    return a.tolist()


QUERIES = {
    'kappa': (lambda o, a: fnum(o.get_kappa()), 'QKappa', 'q'),
    'delta': (lambda o, a: fnum(o.get_delta()), 'QDelta', 'q'),
    'deltaMax': (lambda o, a: fnum(o.get_deltaMax()), '(QDmax false)', 'q'),
    'deltaMaxT': (lambda o, a: (lambda r: (fnum(r[0]), r[1]))(o.get_deltaMax(True)), '(QDmax true)', 'pair'),
    'Omega': (lambda o, a: fnum(o.get_Omega()), 'QOmega', 'q'),
    'FCR': (lambda o, a: fnum(o.get_FCR()), 'QFCR', 'q'),
    'NCPR': (lambda o, a: fnum(o.get_NCPR()), 'QNCPR', 'q'),
    'region': (lambda o, a: int(o.get_phasePlotRegion()), 'QRegion', 'z'),
    'KD': (lambda o, a: fnum(o.get_mean_hydropathy()), 'QKD', 'q'),
    'SCD': (lambda o, a: fnum(o.get_SCD()), 'QScd', 'q'),
    'kappa_after': (lambda o, a: fnum(o.get_kappa_after_phosphorylation()), 'QKappaAfter', 'q'),
    'sites': (lambda o, a: [int(x) for x in o.get_phosphosites()], 'QSites', 'zs'),
    'phosphoseq': (lambda o, a: o.get_phosphosequence(), 'QPhosSeq', 'str'),
    'html': (lambda o, a: o.get_HTMLColorString(), 'QHtml', 'str'),
    'len': (lambda o, a: len(o), 'QLen', 'z'),
    'seq': (lambda o, a: o.get_sequence(), 'QSeq', 'str'),
    # outside the Coq query model: compared with a fresh object only
    'str': (lambda o, a: str(o), None, None),
    'kappaX': (lambda o, a: fnum(o.get_kappa_X(['E', 'D', 'S'], ['K', 'T'])), None, None),
    # one union of residues, grouped in several ways (a memo keyed on the flattened groups would mix them up)
    'kappaX_u': (lambda o, a: fnum(o.get_kappa_X(['E', 'D', 'K', 'R'])), None, None),
    'kappaX_ek': (lambda o, a: fnum(o.get_kappa_X(['E', 'D'], ['K', 'R'])), None, None),
    'kappaX_d': (lambda o, a: fnum(o.get_kappa_X(['D'], ['E', 'K', 'R'])), None, None),
    'kappaX_de': (lambda o, a: fnum(o.get_kappa_X(['D', 'E'], ['K', 'R'])), None, None),
    'reduced_u1': (lambda o, a: o.get_reduced_alphabet_sequence(userAlphabet={x: ('A' if x in 'AGSTP' else 'L') for x in AAS}), None, None),
    'reduced_u2': (lambda o, a: o.get_reduced_alphabet_sequence(userAlphabet={x: ('E' if x in 'DEKR' else 'G') for x in AAS}), None, None),
    'complexity3': (lambda o, a: _arr(o.get_linear_complexity('WF', 3, blobLen=min(6, len(o)))), None, None),
    'PPII_h': (lambda o, a: fnum(o.get_PPII_propensity('hilser')), None, None),
    'Omega_seq': (lambda o, a: o.get_Omega_sequence(), None, None),
    'FCR_pH': (lambda o, a: fnum(o.get_FCR(pH=a)), None, None),
    'NCPR_pH': (lambda o, a: fnum(o.get_NCPR(pH=a)), None, None),
    'pI': (lambda o, a: fnum(o.get_isoelectric_point()), None, None),
    'lin_NCPR': (lambda o, a: _arr(o.get_linear_NCPR(min(5, len(o)))), None, None),
    'lin_sigma': (lambda o, a: _arr(o.get_linear_sigma(min(4, len(o)))), None, None),
    'composition_default': (lambda o, a: _arr(o.get_linear_sequence_composition(min(3, len(o)))), None, None),
    'composition_user': (lambda o, a: _arr(o.get_linear_sequence_composition(min(3, len(o)), [['E', 'K'], 'gs'])), None, None),
    'complexity': (lambda o, a: _arr(o.get_linear_complexity('WF', 8, blobLen=min(6, len(o)))), None, None),
    'reduced': (lambda o, a: o.get_reduced_alphabet_sequence(5), None, None),
    'distribution': (lambda o, a: [tuple(fnum(x) for x in e[:6]) + (''.join(e[6]),) for e in
                                   o.get_full_phosphostatus_kappa_distribution()], None, None),
    'fractions': (lambda o, a: sorted(o.get_amino_acid_fractions().items()), None, None),
    'PPII': (lambda o, a: fnum(o.get_PPII_propensity('creamer')), None, None),
    'MW': (lambda o, a: fnum(o.get_molecular_weight()), None, None),
    'STY': (lambda o, a: [int(x) for x in o.get_all_phosphorylatable_sites()], None, None),
}
STATEFUL = ['kappa', 'deltaMax', 'deltaMaxT', 'Omega', 'kappa_after', 'distribution', 'composition_default', 'html',
            'kappaX_u', 'kappaX_ek', 'kappaX_d', 'reduced_u1', 'reduced_u2', 'complexity', 'complexity3', 'PPII', 'PPII_h']


def same(a, b):
    if isinstance(a, float) or isinstance(b, float):
        return isinstance(a, (int, float)) and isinstance(b, (int, float)) and abs(a - b) <= 1e-12 * max(1.0, abs(a))
    if isinstance(a, (list, tuple)) and isinstance(b, (list, tuple)):
        return len(a) == len(b) and all(same(x, y) for x, y in zip(a, b))
    return a == b


def _history(args):
    specs, ops = args          # specs: [(seq, sites, shuffled?)], ops: [(obj index, query name, arg)]
    from localcider.sequenceParameters import SequenceParameters

    def f():
        live, snap = [], []
        for seq, sites, shuf in specs:
            o = SequenceParameters(seq)
            if shuf:
                o.get_kappa()                                   # cache dmax so the child carries it
                o = o.get_shuffled_sequence()
            if sites:
                o.set_phosphosites(sites)
            live.append(o)
            snap.append((o.get_sequence(), list(o.get_phosphosites())))
        out = []
        for i, name, arg in ops:
            o = live[i]
            fn = QUERIES[name][0]
            st, v = call(fn, o, arg, seconds=60)
            fresh = SequenceParameters(snap[i][0])
            if snap[i][1]:
                fresh.set_phosphosites(snap[i][1])
            st2, v2 = call(fn, fresh, arg, seconds=60)
            now = (o.get_sequence(), list(o.get_phosphosites()))
            ok = st == st2 and (st != 'ok' or same(v, v2)) and now == snap[i]
            out.append((st, v, ok, None if ok else (st2, v2, now)))
        return [s for s, _ in snap], [s for _, s in snap], out
    return call(f, seconds=600)


def build(ctx):
    rng = ctx.rng
    jobs = []
    names = list(QUERIES)
    pairs = [(a, b) for a in STATEFUL for b in STATEFUL]
    for k in range(ctx.pick(150, 800)):
        nobj = rng.choice([1, 1, 2, 3])
        specs = []
        for j in range(nobj):
            s = ''.join(rng.choice('STY' if rng.random() < 0.2 else 'EKDRGSPQAN' if rng.random() < 0.8 else AAS)
                        for _ in range(rng.randint(6, 22)))
            if rng.random() < 0.2:      # degenerate compositions: delta-max exactly 0, uncharged, very short
                s = rng.choice(['KKKKKKKK', 'RKRKRKRKRKRK', 'DEDEDEDE', 'EKGS', 'KAEAK', 'GSGSGSGS', 'K', 'EK', 'SSSTTTYY',
                                'EEEEEEGGGG', 'KKKKKKGGGGGGGGGGGGGGGGGGG',
                                # the sequence's own delta within 10% above / well above the family's delta-max (kappa clamps / D1)
                                'KGGGGGK', 'EKKEKKE', 'KKEEGEEK', 'EGGGGGEE', 'GEEGEG', 'RSAGTQK', 'DKRDRKE', 'KEEEEK', 'KGGGGK',
                                'EAAAAE', 'KEEEAK', 'RRDEEEK'])
            sty = [i + 1 for i, c in enumerate(s) if c in 'STY']
            sites = rng.sample(sty, min(len(sty), rng.randint(0, 3)))
            specs.append((s, sites, j == 1 and rng.random() < 0.7))
        ops = []
        a, b = pairs[k % len(pairs)]
        forced = [(rng.randrange(nobj), a, None), (rng.randrange(nobj), b, None)]
        for _ in range(rng.randint(ctx.pick(10, 25), ctx.pick(30, 60))):
            nm = rng.choice(STATEFUL) if rng.random() < 0.45 else rng.choice(names)
            ops.append((rng.randrange(nobj), nm, rng.choice([0.0, 3.9, 7.4, 14.0]) if nm.endswith('_pH') else None))
        pos = rng.randrange(len(ops))
        ops[pos:pos] = forced
        jobs.append((specs, ops))
    res = pmap(_history, jobs, chunk=4)
    cases = []
    ctx.direct_failures = []
    nops = 0
    for (specs, ops), (st, v) in zip(jobs, res):
        if st != 'ok':
            ctx.direct_failures.append({'objects': specs, 'ops': ops, 'impl': [st, v]})
            continue
        seqs, sites, out = v
        nops += len(ops)
        bad = [(k, ops[k], out[k]) for k in range(len(ops)) if not out[k][2]]
        if bad:
            k = bad[0][0]
            ctx.direct_failures.append({'why': 'answer differs from a freshly constructed object, or sequence/phosphosites changed',
                                        'objects': [[s, p] for s, p in zip(seqs, sites)], 'history': [list(x) for x in ops[:k + 1]],
                                        'query': ops[k][1], 'live_object_answer': repr(out[k][1])[:300],
                                        'fresh_object_answer_and_state': repr(out[k][3])[:400]})
            continue
        # per object: the modelled subsequence, replayed in Coq
        for i in range(len(seqs)):
            h = []
            for (j, name, arg), (s_, val, _, _) in zip(ops, out):
                cqy, kind = QUERIES[name][1], QUERIES[name][2]
                if j != i or cqy is None or s_ != 'ok':
                    continue
                try:
                    if kind == 'q':
                        o_ = '(OQ %s)' % cq(val)
                    elif kind == 'z':
                        o_ = '(OZ %s)' % cz(val)
                    elif kind == 'str':
                        o_ = '(OStr %s)' % cstr(val)
                    elif kind == 'zs':
                        o_ = '(OZs %s)' % clist(cz(x) for x in val)
                    else:
                        o_ = '(OPair %s %s)' % (cq(val[0]), cstr(val[1]))
                except Exception:
                    ctx.direct_failures.append({'why': 'uncanonicalisable answer', 'query': name, 'value': repr(val)[:200]})
                    continue
                h.append('(%s, %s)' % (cqy, o_))
            d = {'sequence': seqs[i], 'phosphosites': sites[i], 'history': [nm for (j, nm, _) in ops if j == i],
                 'objects_in_history': len(seqs)}
            nst = sum(1 for (j, nm, _) in ops if j == i and nm in STATEFUL)
            cases.append(Case('(%s, %s, %s)' % (cstr(seqs[i]), clist(cz(x) for x in sites[i]), clist(h)), d,
                              key=(seqs[i], tuple(sites[i]), tuple(d['history'])), nontrivial=nst >= 2))
    ctx.notes['ops_compared_with_fresh_objects'] = nops
    return [CaseSet('C15', IMPORTS, 'string * list Z * list (query * obs)', 'check_c15', cases, shard=25)]


def search(ctx, broken, cases):
    """all ordered pairs / triples of stateful queries around the writing methods, against fresh objects"""
    rng = ctx.rng
    for s in ['EKEKGGEKEK', 'GGGSSGGS', 'KKKKKSTYEE', 'SEKTYDRGPQ']:
        sty = [i + 1 for i, c in enumerate(s) if c in 'STY']
        for a in STATEFUL:
            for b in STATEFUL:
                st, v = _history(([(s, sty[:2], False)], [(0, a, None), (0, b, None), (0, a, None)]))
                if st != 'ok':
                    return {'kind': 'history-fails', 'sequence': s, 'history': [a, b, a], 'impl': [st, repr(v)[:300]]}
                for k, o in enumerate(v[2]):
                    if not o[2]:
                        return {'kind': 'history-dependent-answer', 'sequence': s, 'phosphosites': sty[:2],
                                'history': [a, b, a][:k + 1], 'live': repr(o[1])[:300], 'fresh_and_state': repr(o[3])[:300]}
    return None


def replay_fixed(ctx, fnd):
    return None


def replay(ctx, obj):
    return obj
