"""C06 — Omega, Omega sequence and kappa_X are kappa of the recoded sequence."""
from harness.util import *
from harness import gen_seq
from runner import Case, CaseSet

ID = 'C06'
OBLIGATIONS = ['Props/C06.v', 'Props/Tie/recode_tie.v', 'Props/Tie/charge_tie.v', 'Props/Tie/minipy_kappax_tie.v']
RULE = ('random class sequences (N 5..40), every grouping of a sequence asked of ONE object back to back, x groupings: one union split several ways and unsplit,  random subsets of the 20 residues in mixed case / shuffled order / '
        'as list, tuple or string, disjoint and overlapping pairs, complements, the PEDKR and ED/KR groups, empty second '
        'group, groups containing a non-amino-acid (letter, digit, two-letter string, non-string); plus (also for every two-class pattern of length 5..9, thorough 11) Omega / Omega '
        'sequence / kappa per sequence; non-trivial = distinct (sequence, groups) accepted with both recoded classes present')
TRUSTED = ['group arguments canonicalised to lists of strings; non-string or non-printable members become the token "??"']
ASSUMPTIONS = ['swap clause read for disjoint groups (with overlap the first group wins, as in the code)']
LEVEL_TEXT = ('Proof: Omega = kappa of the {P,E,D,K,R}-recoded pattern = kappa_X(PEDKR); kappa = kappa_X(ED,KR); kappa_X is '
              'invariant under swapping disjoint groups (via kappa_inv), member order/repetition, letter case (256-case ASCII '
              'lemma), complementation; non-amino-acid members are rejected; Omega_seq marks exactly the PEDKR positions. '
              'Tie: or-chains and output letters extracted from source; real getters compared with the model in Coq.')
LEVEL_NOTE_MINIPY = ' Whole-function semantic ties (source translated to Core/MiniPy terms on every run, proved equal to the model for all inputs): __parse_group, kappa_X (callee run through its own translation), Omega, Omega_seq.'
LEVEL_NOTE = 'Closed under the global context. Trusts py2coq extraction of Omega/kappa_X recoding, harness canonicalisation.'
TECHNIQUE = 'Coq proof (recoding algebra + kappa inversion invariance) + translator tie + in-Coq correspondence'

IMPORTS = ('From Coq Require Import List ZArith QArith String.\n'
           'From LC Require Import Core.Residue Model.DeltaCheck Model.PatternCheck.\n'
           'Import ListNotations. Local Open Scope string_scope.')


def canon_group(g):
    """what iterating the argument yields, as strings"""
    if g is None:
        return None
    out = []
    try:
        for x in g:
            if isinstance(x, str) and all(32 <= ord(c) < 127 and c != '"' for c in x):
                out.append(x)
            else:
                out.append('??')
    except TypeError:
        return ['??']
    return out


def _kx(args):
    seq, g1, g2 = args
    return call(lambda: fnum(SP(seq).get_kappa_X(g1, g2)), seconds=60)


def _kx_seq(args):
    """every grouping of one sequence asked of ONE object, in order (a per-object memo must not leak between groupings)"""
    seq, groups = args
    st, o = call(SP, seq)
    if st != 'ok':
        return [(st, o)] * len(groups)
    return [call(lambda: fnum(o.get_kappa_X(g1, g2)), seconds=60) for g1, g2 in groups]


def _omega(seq):
    def f():
        o = SP(seq)
        return (fnum(o.get_Omega()), o.get_Omega_sequence(), fnum(o.get_kappa()))
    return call(f, seconds=60)


def random_group(rng, pool=AAS, kmin=1):
    k = rng.randint(kmin, max(kmin, min(len(pool), 8)))
    g = rng.sample(list(pool), k)
    g = [c.lower() if rng.random() < 0.3 else c for c in g]
    if rng.random() < 0.2:
        g = g + [rng.choice(g)]
    form = rng.random()
    if form < 0.2:
        return tuple(g)
    if form < 0.4:
        return ''.join(g)
    return g


def build(ctx):
    import harness.util as _U
    _U.PRELUDE = 3      # every third object (by crc32 of its sequence) answers after a query history (util.prelude)
    _U.DECORATE = 4     # every fourth sequence is handed to the constructor in another accepted spelling (util.decorate)
    _U.DERIVED = 5      # every fifth object is the all-positions-frozen shuffle of the constructed one (same sequence, sampler's code path)
    rng = ctx.rng
    seqs = gen_seq.random_classes(rng, ctx.pick(70, 300), 5, 40)
    jobs = []
    for s in seqs:
        g1 = random_group(rng)
        rest = [c for c in AAS if c.upper() not in {x.upper() for x in g1}]
        g2 = random_group(rng, rest) if rest else None
        comp = [c for c in AAS if c not in {x.upper() for x in g1}]
        jobs += [(s, g1, None), (s, g1, g2), (s, g2, g1), (s, comp, None) if comp else (s, g1, []),
                 (s, ['P', 'E', 'D', 'K', 'R'], None), (s, ['E', 'D'], ['K', 'R']), (s, ['K', 'R'], ['E', 'D']),
                 (s, g1, random_group(rng)),                    # possibly overlapping
                 (s, g1, [])]
        bad = rng.choice(['X', 'B', '1', '*', 'ED', '', ' ', 'z', 5, None, 'é'])
        gb = list(g1) + [bad]
        rng.shuffle(gb)
        jobs += [(s, gb, None), (s, g1, gb)]
        # one union, several ways of splitting it (and unsplit), asked back to back
        u = sorted({x.upper() for x in g1} | ({x.upper() for x in g2} if g2 else set()))
        if len(u) >= 2:
            k = rng.randint(1, len(u) - 1)
            k2 = rng.randint(1, len(u) - 1)
            jobs += [(s, u, None), (s, u[:k], u[k:]), (s, u[:k2], u[k2:]), (s, u[k:], u[:k]), (s, u, None)]
        jobs += [(s, ['D', 'E', 'K', 'R'], None), (s, ['E', 'D'], ['K', 'R']), (s, ['D'], ['E', 'K', 'R']),
                 (s, ['D', 'E', 'K', 'P', 'R'], None), (s, ['D', 'E'], ['K', 'P', 'R'])]
    jobs = [j for j in jobs if j[1] is not None]
    byseq = {}
    for j in jobs:
        byseq.setdefault(j[0], []).append(j)
    order = list(byseq)
    rs = pmap(_kx_seq, [(q, [(g1, g2) for _, g1, g2 in byseq[q]]) for q in order], chunk=2)
    jobs = [j for q in order for j in byseq[q]]
    res = [r for rr in rs for r in rr]
    cases = []
    ctx.direct_failures = []
    cl = lambda g: clist(cstr(x) for x in g)
    for (s, g1, g2), (st, v) in zip(jobs, res):
        c1, c2 = canon_group(g1), canon_group(g2)
        d = {'sequence': s, 'grp1': repr(g1), 'grp2': repr(g2), 'get_kappa_X': [st, v]}
        if st == 'timeout' or (st == 'ok' and not isinstance(v, (int, float))):
            ctx.direct_failures.append(d)
            continue
        r = '(Some %s)' % cq(v) if st == 'ok' else 'None'
        coq = '(%s, %s, %s, %s)' % (cstr(s), cl(c1), 'None' if c2 is None else '(Some %s)' % cl(c2), r)
        cases.append(Case(coq, d, key=(s, repr(g1), repr(g2)), nontrivial=(st == 'ok' and v != -1)))
    # every two-class (PEDKR / other) pattern of length 5..9 (thorough 11), spelled with random members of each class
    import itertools
    oseqs = list(seqs)
    for n in range(5, ctx.pick(9, 11) + 1):
        for bits in itertools.product('XO', repeat=n):
            oseqs.append(''.join(rng.choice('PEDKR') if b == 'X' else rng.choice('AGSTQNHLIVMFWYC') for b in bits))
    res2 = pmap(_omega, oseqs)
    ocases = []
    for s, (st, v) in zip(oseqs, res2):
        d = {'sequence': s, 'Omega_OmegaSeq_kappa': [st, v]}
        if st != 'ok' or not (isinstance(v[1], str) and set(v[1]) <= {'X', 'O'}):
            ctx.direct_failures.append(d)
            continue
        ocases.append(Case('(%s, %s, %s, %s)' % (cstr(s), cq(v[0]), clist(cbool(c == 'X') for c in v[1]), cq(v[2])), d,
                           key=('omega', s), nontrivial=v[0] != -1))
    return [CaseSet('C06x', IMPORTS, 'string * list string * option (list string) * option Q', 'check_c06x', cases, shard=120),
            CaseSet('C06o', IMPORTS, 'string * Q * list bool * Q', 'check_c06o', ocases, shard=120)]


def search(ctx, broken, cases):
    """identities of the statement, on implementation outputs"""
    tol = 1e-9
    for c in cases:
        if 'Omega_OmegaSeq_kappa' not in c.descr:
            continue
        s = c.descr['sequence']
        om, oseq, k = c.descr['Omega_OmegaSeq_kappa'][1]
        a = _kx((s, ['P', 'E', 'D', 'K', 'R'], None))
        b = _kx((s, ['E', 'D'], ['K', 'R']))
        if a[0] != 'ok' or abs(a[1] - om) > tol:
            return {'kind': 'Omega != kappa_X(PEDKR)', 'sequence': s, 'Omega': om, 'kappa_X': a}
        if b[0] != 'ok' or abs(b[1] - k) > tol:
            return {'kind': 'kappa != kappa_X(ED,KR)', 'sequence': s, 'kappa': k, 'kappa_X': b}
        if oseq != ''.join('X' if ch in 'PEDKR' else 'O' for ch in s):
            return {'kind': 'Omega sequence wrong', 'sequence': s, 'Omega_sequence': oseq}
        rec = ''.join('E' if ch in 'PEDKR' else 'K' for ch in s)
        kk = call(lambda: fnum(SP(rec).get_kappa()))
        if kk[0] != 'ok' or abs(kk[1] - om) > tol:
            return {'kind': 'Omega != kappa(recoded)', 'sequence': s, 'recoded': rec, 'Omega': om, 'kappa_recoded': kk}
        g = ctx.rng.sample(list(AAS), 6)
        x1, x2 = _kx((s, g[:3], g[3:])), _kx((s, g[3:], g[:3]))
        if x1[0] != 'ok' or x2[0] != 'ok' or abs(x1[1] - x2[1]) > tol:
            return {'kind': 'kappa_X not symmetric in disjoint groups', 'sequence': s, 'groups': [g[:3], g[3:]], 'values': [x1, x2]}
        x3 = _kx((s, [q.lower() for q in g[:3]][::-1], None))
        x4 = _kx((s, g[:3], None))
        x5 = _kx((s, [q for q in AAS if q not in g[:3]], None))
        if not (x3[0] == x4[0] == x5[0] == 'ok') or abs(x3[1] - x4[1]) > tol or abs(x4[1] - x5[1]) > tol:
            return {'kind': 'kappa_X case/order/complement', 'sequence': s, 'group': g[:3], 'values': [x3, x4, x5]}
        x6 = _kx((s, g[:2] + ['X'], None))
        if x6[0] != 'rejected':
            return {'kind': 'non-amino-acid group member accepted', 'sequence': s, 'group': g[:2] + ['X'], 'result': x6}
    return None


def replay(ctx, obj):
    return obj
