"""C14 — sequence files: layouts and single-character corruptions through real files."""
import os
import shutil
from harness.util import *
from harness import gen_seq
from runner import Case, CaseSet

ID = 'C14'
OBLIGATIONS = ['Props/C14.v', 'Props/Tie/parser_tie.v', 'Props/Tie/minipy_validseq_tie.v', 'Props/Tie/minipy_parser_tie.v']
RULE = ('random sequences (N 1..120) x random layouts (FASTA header or not, line lengths, 10-residue spacing, position '
        'numbers, blank/whitespace lines, \\n / \\r\\n / \\r terminators, trailing newline or not, optional final "*", leading '
        'tabs/blanks) and then every single-character corruption class (each ASCII byte 0..127) at random positions of small '
        'files, second headers, repeated / non-final "*"; non-trivial = distinct file content that parses to >= 2 residues or is '
        'a corruption')
TRUSTED = ['files are ASCII (bytes < 128); text-mode reading modelled as universal-newline translation']
ASSUMPTIONS = ['object built from the file is compared with the object built from the string on get_sequence, kappa, FCR']
LEVEL_TEXT = ('Proof: for every layout (any number of blank/whitespace lines, at most one header line, sequence lines made of '
              'residues, blanks and digits, optional final "*"), parsing the rendered file yields exactly the concatenated residues; '
              'a second header, a repeated or non-final "*", or any other character in a sequence line is rejected. '
              'Tie: parser statement fingerprints + digit string; real files parsed by SequenceFileParser compared in Coq.')
LEVEL_NOTE_MINIPY = ' Whole-function semantic ties (source translated to Core/MiniPy terms on every run, proved equal to the model for all inputs): __validSeq, __final_validation, parseSeqFile (every file text).'
LEVEL_NOTE = 'Closed under the global context. Layout theorem covers \\n-terminated files with blank-padded sequence lines; \\r\\n/\\r and tab padding are covered by correspondence.'
TECHNIQUE = 'Coq proof (list-of-ascii parsing lemmas, induction over lines) + in-Coq correspondence through real files'

IMPORTS = ('From Coq Require Import List String.\n'
           'From LC Require Import Core.Residue Model.Parser.\n'
           'Import ListNotations. Local Open Scope string_scope.')


def layout(rng, s):
    term = rng.choice(['\n', '\n', '\r\n', '\r'])
    lines = []
    if rng.random() < 0.5:
        lines.append(rng.choice(['', ' ', '\t']) + '>' + rng.choice(['sp|P12345|TEST some protein 42', 'x', '', '>> odd *']))
    pos, w = 0, rng.choice([7, 10, 25, 60, 80, 1000])
    num = rng.random() < 0.3
    grp = rng.random() < 0.4
    while pos < len(s):
        chunk = s[pos:pos + w]
        if grp:
            chunk = ' '.join(chunk[i:i + 10] for i in range(0, len(chunk), 10))
        line = chunk
        if num:
            line = ('%6d ' % (pos + 1)) + line + (' %d' % (pos + len(s[pos:pos + w])) if rng.random() < 0.5 else '')
        if rng.random() < 0.2:
            line = rng.choice([' ', '\t', '  ']) + line + rng.choice(['', ' ', '\t '])
        lines.append(line)
        if rng.random() < 0.15:
            lines.append(rng.choice(['', '   ', '\t', '\x0c']))
        pos += w
    if rng.random() < 0.25:
        if rng.random() < 0.5 and lines:
            lines[-1] = lines[-1].rstrip() + '*' + rng.choice(['', ' ', '  '])
        else:
            lines.append('*')
    text = term.join(lines) + (term if rng.random() < 0.7 else '')
    return text


def corrupt(rng, text):
    kind = rng.random()
    if kind < 0.12:
        # a second header placed before / right after the first one, or '>' put in front of a line
        lines = text.split('\n')
        i = rng.randrange(len(lines))
        if rng.random() < 0.5:
            lines[i] = '>' + lines[i]
        else:
            lines.insert(i, rng.choice(['>extra header', ' >x', '>']))
        if rng.random() < 0.5 and not lines[0].lstrip().startswith('>'):
            lines.insert(0, '>first')
        return '\n'.join(lines)
    if kind < 0.6:
        i = rng.randrange(len(text) + 1)
        return text[:i] + chr(rng.randrange(128)) + text[i:]
    if kind < 0.75:
        return text + '\n>second header\nEK\n'
    if kind < 0.9:
        i = rng.randrange(len(text) + 1)
        return text[:i] + '*' + text[i:]
    return text.replace('\n', '*\n', 2)


def _parse(args):
    path, text = args
    from localcider.backend.seqfileparser import SequenceFileParser
    from localcider.sequenceParameters import SequenceParameters
    with open(path, 'wb') as fh:
        fh.write(text.encode('ascii'))
    st, v = call(SequenceFileParser().parseSeqFile, path)
    same = None
    if st == 'ok' and isinstance(v, str) and len(v) > 0 and all(c in AAS for c in v):
        st2, o = call(lambda: SequenceParameters(sequenceFile=path))
        if st2 == 'ok':
            f = SequenceParameters(v)
            same = (o.get_sequence() == v and abs(o.get_kappa() - f.get_kappa()) < 1e-12 and abs(o.get_FCR() - f.get_FCR()) < 1e-12)
        else:
            same = False
    os.unlink(path)
    return st, v, same


def build(ctx):
    rng = ctx.rng
    d = os.path.join(ctx.work, 'files')
    os.makedirs(d, exist_ok=True)
    texts = []
    for s in gen_seq.random_classes(rng, ctx.pick(200, 1200), 1, 120):
        t = layout(rng, s)
        texts.append(('layout', s, t))
        if rng.random() < 0.6:
            texts.append(('corrupt', s, corrupt(rng, t)))
    small = 'EKGS\nTAY\n'
    for b in range(128):
        for i in (0, 2, 4, 5, len(small)):
            texts.append(('byte', 'EKGSTAY', small[:i] + chr(b) + small[i:]))
    # stars: runs at the very end, separated by blanks / digits / newlines, last residue replaced, star first
    for s0 in ['ACDE', 'EKGSTAY', 'M']:
        for tail in ['**', '* *', '*\n*', '*\n*\n', '***', '*\n\n*\n', '* 12 *', '**\n', '*\r\n*\r\n']:
            texts.append(('stars', s0, s0 + tail))
            texts.append(('stars', s0, '>h\n' + s0[:2] + '\n' + s0[2:] + tail))
        texts += [('stars', s0, s0[:-1] + '**'), ('stars', s0, '*' + s0), ('stars', s0, '*' + s0 + '*'), ('stars', s0, s0 + '*'),
                  ('stars', s0, s0 + '\n*\n'), ('stars', s0, '*'), ('stars', s0, '**'), ('stars', s0, s0[:1] + '*' + s0[1:] + '*')]
    texts += [('edge', 'ACDE', '>h1\n>h2\nACDE\n'), ('edge', 'ACDE', '>h1\n\n  12 \n>h2\nACDE'), ('edge', 'ACDE', '>h1\n>ACDE\n'),
              ('edge', 'AC', '>h1\nAC\n>h2\nDE\n'), ('edge', 'ACDE', 'ACDE\n>late header\n'),
              ('edge', '', ''), ('edge', '', '\n\n'), ('edge', '', '>only header\n'), ('edge', 'E', 'E'), ('edge', 'EK', 'ek\n')]
    jobs = [(os.path.join(d, 'f%d.txt' % i), t) for i, (_, _, t) in enumerate(texts)]
    res = pmap(_parse, jobs, chunk=32)
    shutil.rmtree(d, ignore_errors=True)
    cases = []
    ctx.direct_failures = []
    for (kind, s, t), (st, v, same) in zip(texts, res):
        dsc = {'kind': kind, 'intended_sequence': s, 'file_content': t, 'parseSeqFile': [st, v], 'object_matches_string_object': same}
        if st == 'timeout' or same is False or (st == 'ok' and not isinstance(v, str)):
            ctx.direct_failures.append(dsc)
            continue
        if st == 'ok' and not all(c in AAS for c in v):
            ctx.direct_failures.append(dsc)
            continue
        if kind == 'layout' and (st != 'ok' or v != s):
            dsc['why'] = 'a well-formed layout did not parse to its residues'
            ctx.direct_failures.append(dsc)
            continue
        r = '(Some %s)' % cstr(v) if st == 'ok' else 'None'
        cases.append(Case('(%s, %s)' % (clist(cnat(ord(c)) for c in t), r), dsc, key=t,
                          nontrivial=(kind != 'layout' or len(s) >= 2)))
    return [CaseSet('C14', IMPORTS, 'list nat * option string', 'check_c14', cases, shard=150)]


def search(ctx, broken, cases):
    for c in cases:
        if c.descr['kind'] == 'layout':
            st, v = c.descr['parseSeqFile']
            if st != 'ok' or v != c.descr['intended_sequence']:
                return {'kind': 'layout-not-parsed-to-its-residues', 'file_content': c.descr['file_content'],
                        'parseSeqFile': [st, v], 'expected': c.descr['intended_sequence']}
    return None


def replay(ctx, obj):
    return obj
