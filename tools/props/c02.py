"""C02 — delta: correspondence of get_delta() with the code-shaped model (== spec by theorem)."""
from fractions import Fraction
from harness.util import *
from harness import gen_seq
from runner import Case, CaseSet

ID = 'C02'
OBLIGATIONS = ['Props/C02.v', 'Props/Tie/charge_tie.v', 'Props/Tie/delta_formulas_tie.v', 'Props/Tie/minipy_delta_tie.v']
RULE = ('exhaustive +/-/0 patterns of length 1..n (quick 8, thorough 10) each spelled with random residues of the class; '
        'random IDP-like / polyampholyte / polyelectrolyte / low-complexity / uniform sequences (length <= 80 quick, '
        '<= 400 thorough); all 20 singletons; non-trivial = distinct sequence with N >= 5 and >= 1 charged residue')
TRUSTED = ['float agreement rule |x - q| <= 1e-9 max(1,|q|) (Core/QTools.close); bounded formula grids of delta_formulas_tie.v']
ASSUMPTIONS = ['floating-point accuracy clause is sampled (tolerance 1e-9), not proved']
LEVEL_TEXT = ('Proof: Spec.delta is the property statement; the loop-shaped model m_delta (mirroring Sequence.sigma/deltaForm/'
              'delta) is proved == Spec.delta for every pattern, plus short/too-long/non-negativity/uncharged theorems. '
              'Tie: the charge table and the source arithmetic (translated by py2coq) are proved equal to the model on '
              'complete grids; get_delta() is compared with the model inside Coq on exhaustive short patterns and random sequences.')
LEVEL_NOTE = ('Closed under the global context (no axioms). Trusts py2coq, the harness, Qred/vm_compute; float accuracy sampled with 1e-9.')
LEVEL_NOTE_MINIPY = ' Whole-function ties (minipy_delta_tie.v): sigma, deltaForm and delta are translated into Core/MiniPy.v terms on every run (every a / b read as exact rational division); for every charge pattern the translated code returns exactly Model.Delta.m_sigma / m_deltaForm / m_delta.'
TECHNIQUE = 'Coq proof (model == spec by induction over the blob loop) + translator tie on grids + in-Coq differential correspondence'

IMPORTS = ('From Coq Require Import List ZArith QArith String.\n'
           'From LC Require Import Core.Residue Model.DeltaCheck.\n'
           'Import ListNotations. Local Open Scope string_scope.')


def _delta(seq):
    def f():
        o, held = SPx(seq)
        return held, fnum(o.get_delta())
    return call(f)


def sequences(ctx, nmax_q=8, nmax_t=10, lmax_t=400):
    rng = ctx.rng
    seqs = [gen_seq.spell(rng, p) for p in gen_seq.patterns_upto(ctx.pick(nmax_q, nmax_t))]
    seqs += list(AAS)
    seqs += gen_seq.random_classes(rng, ctx.pick(300, 1500), 1, ctx.pick(80, lmax_t))
    seqs += gen_seq.homopolymers(rng)
    return seqs


def build(ctx):
    import harness.util as _U
    _U.PRELUDE = 3      # every third object (by crc32 of its sequence) answers after a query history (util.prelude)
    _U.DECORATE = 4     # every fourth sequence is handed to the constructor in another accepted spelling (util.decorate)
    _U.DERIVED = 5      # every fifth object is the all-positions-frozen shuffle of the constructed one (same sequence, sampler's code path)
    seqs = sequences(ctx)
    res = pmap(_delta, seqs)
    cases = []
    ctx.direct_failures = []
    for s0, (st, v) in zip(seqs, res):
        s = s0
        if st == 'ok':
            s, v = v          # the sequence the object actually holds (a shuffled child holds another one than asked for)
        d = {'sequence': s, 'get_delta': [st, v]}
        if s != s0:
            d['object'] = 'get_shuffled_sequence() child of ' + s0
        if st != 'ok' or not isinstance(v, (int, float)):
            ctx.direct_failures.append(d)
            continue
        nt = len(s) >= 5 and any(c in 'KRDE' for c in s)
        cases.append(Case('(%s, %s)' % (cstr(s), cq(v)), d, key=(s, s != s0), nontrivial=nt))
    return [CaseSet('C02', IMPORTS, 'string * Q', 'check_c02', cases, shard=700)]


def py_delta(seq):
    """independent exact evaluation of the definition (used only by the violation search)"""
    q = pat_of(seq)
    N = len(q)

    def sig(b, L):
        p, n = sum(1 for x in b if x > 0), sum(1 for x in b if x < 0)
        return Fraction(0) if p + n == 0 else Fraction((p - n) ** 2, L * (p + n))
    tot = Fraction(0)
    s = sig(q, N)
    for w in (5, 6):
        nb = N - w + 1
        if nb <= 0:
            continue
        tot += sum((s - sig(q[i:i + w], w)) ** 2 for i in range(nb)) / nb
    return tot / 2


def search(ctx, broken, cases):
    for c in cases:
        s = c.descr['sequence']
        st, v = c.descr['get_delta']
        if st == 'ok':
            q = py_delta(s)
            if abs(Fraction(v) - q) > Fraction(1, 10 ** 9) * max(1, abs(q)):
                return {'kind': 'delta-differs-from-definition', 'sequence': s, 'get_delta': v,
                        'exact_definition': str(q), 'exact_as_float': float(q)}
    return None


def replay(ctx, obj):
    c = obj.get('case', obj)
    s = c['sequence']
    return {'sequence': s, 'get_delta_now': _delta(s), 'exact_definition': float(py_delta(s)), 'stored': c}
