#!/usr/bin/env python3
"""Writes /verif/MANIFEST.json from the per-property modules in tools/props."""
import importlib
import json
import os
import sys

ROOT = os.path.dirname(os.path.dirname(os.path.abspath(__file__)))
sys.path.insert(0, os.path.join(ROOT, 'tools'))
sys.dont_write_bytecode = True
BASE = ('cd /repo && env -u LOCALCIDER_VERIF /venv/bin/python -m pytest -ra -q -p no:cacheprovider --timeout=900 '
        '--continue-on-collection-errors')

ids = [json.loads(l)['id'] for l in open(os.path.join(ROOT, 'properties.jsonl'))]
checks, na = [], []
for pid in ids:
    path = os.path.join(ROOT, 'tools', 'props', pid.lower() + '.py')
    if not os.path.exists(path):
        na.append({'property_id': pid, 'reason': 'no Coq model/theorems for this property are in the committed '
                   'development yet (DESIGN.md section 6 gives the intended design); nothing is claimed for it'})
        continue
    src = open(path).read()
    meta = {}
    # modules import the harness (needs /repo on path); read the metadata statically
    import ast
    for node in ast.parse(src).body:
        if isinstance(node, ast.Assign) and isinstance(node.targets[0], ast.Name) and \
                node.targets[0].id in ('LEVEL_TEXT', 'LEVEL_NOTE', 'LEVEL_NOTE_MINIPY', 'TECHNIQUE', 'DESIGN_REF'):
            meta[node.targets[0].id] = ast.literal_eval(node.value)
    checks.append({
        'property_id': pid,
        'quick_cmd': './check %s --tier quick' % pid,
        'thorough_cmd': './check %s --tier thorough' % pid,
        'evidence_file': 'evidence/%s.json' % pid,
        'replay_cmd_template': './check %s --replay {path}' % pid,
        'engine': 'coq-props+py2coq+cases-vm',
        'level_claimed': {'category': 'proof', 'text': meta.get('LEVEL_TEXT', ''),
                          'design_ref': meta.get('DESIGN_REF', 'DESIGN.md section 6 ' + pid)},
        'level_note': meta.get('LEVEL_NOTE', '') + meta.get('LEVEL_NOTE_MINIPY', ''),
        'technique': meta.get('TECHNIQUE', 'Coq theorems over a hand model; translator tie + in-Coq correspondence'),
    })

man = {
    'version': 1,
    'setup_cmd': './check --setup',
    'hooks': {'guard': 'LOCALCIDER_VERIF', 'enable': 'environment variable LOCALCIDER_VERIF=1 (set by ./check)',
              'baseline_off_cmd': BASE, 'source_commits': json.load(open(os.path.join(ROOT, 'tools', 'hook_commits.json')))
              if os.path.exists(os.path.join(ROOT, 'tools', 'hook_commits.json')) else [], 'add_only': True},
    'engines': [
        {'name': 'coq-props', 'path': 'coq/', 'serves_properties': [c['property_id'] for c in checks],
         'kind_free_text': 'Coq 8.16.1 development: Spec/Model/Proofs library + Props/Cxx.v theorem files re-checked by coqc on every run'},
        {'name': 'py2coq', 'path': 'tools/py2coq', 'serves_properties': [c['property_id'] for c in checks],
         'kind_free_text': 'fail-closed Python-ast translator regenerating coq/Gen/*.v from /repo on every run; Props/Tie/*.v prove Gen = Spec'},
        {'name': 'cases-vm', 'path': 'tools/props', 'serves_properties': [c['property_id'] for c in checks],
         'kind_free_text': 'correspondence: implementation outputs written to Cases/*.v and compared with the model inside Coq (vm_compute)'},
    ],
    'checks': checks,
    'not_applicable': na,
    'notes': 'See DESIGN.md. known_findings.txt lists genuine defects recorded rather than repaired.',
}
json.dump(man, open(os.path.join(ROOT, 'MANIFEST.json'), 'w'), indent=1)
print('claimed', [c['property_id'] for c in checks], 'na', len(na))
