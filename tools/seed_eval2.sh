#!/bin/bash
# usage: seed_eval2.sh <TAG> [extra check ids...]  — like seed_eval.sh, but against an isolated copy of /verif and a scratch
# worktree of /repo under /tmp/ev/<TAG> (several can run side by side; /repo's working tree is never touched)
set -u
TAG=$1; shift
PID=${TAG:0:3}
WT=/tmp/wt/$TAG
DST=/verif/seeded/$TAG
EV=/tmp/ev/$TAG
mkdir -p $DST /tmp/ev
cp $WT/_seed/patch.diff $WT/_seed/demo.py $DST/ 2>/dev/null
cp $WT/_seed/meta.json $DST/meta.agent.json 2>/dev/null
( cd $WT && git checkout -q -- localcider && rm -rf localcider/__pycache__
  PYTHONPATH=$WT /venv/bin/python -W ignore $DST/demo.py >/dev/null 2>&1; echo $? > /tmp/ev/$TAG.clean_rc
  git apply $DST/patch.diff || exit 2
  PYTHONPATH=$WT /venv/bin/python -W ignore $DST/demo.py > $DST/demo.out 2>&1; echo $? > /tmp/ev/$TAG.seeded_rc
  /venv/bin/python -m pytest -q -p no:cacheprovider --timeout=900 --continue-on-collection-errors localcider/tests 2>&1 | tail -1 > /tmp/ev/$TAG.tests
  git checkout -q -- localcider )
clean_rc=$(cat /tmp/ev/$TAG.clean_rc); seeded_rc=$(cat /tmp/ev/$TAG.seeded_rc); tests=$(cat /tmp/ev/$TAG.tests)
echo "demo clean rc=$clean_rc seeded rc=$seeded_rc; tests with patch: $tests"
[ -d $EV ] && { git -C /repo worktree remove --force $EV/repo 2>/dev/null; rm -rf $EV; }
mkdir -p $EV
rsync -a --exclude .git --exclude .work --exclude 'replays/*' --exclude 'coq/Cases' /verif/ $EV/verif/
git -C /repo worktree add --detach -q $EV/repo HEAD
git -C $EV/repo apply $DST/patch.diff || exit 4
res=""
for c in $PID "$@"; do
  out=$(cd $EV/verif && LOCALCIDER_REPO=$EV/repo ./check $c --tier quick 2>&1 | grep -v "^$" | tail -6)
  rc=$(echo "$out" | grep -c "^VIOLATION")
  echo "--- check $c: VIOLATION lines=$rc"; echo "$out" | cut -c1-300
  res="$res $c:$rc"
done
cp $EV/verif/replays/*.json $DST/ 2>/dev/null
git -C /repo worktree remove --force $EV/repo; rm -rf $EV /tmp/ev/$TAG.*
echo "{\"demo_clean_rc\": $clean_rc, \"demo_seeded_rc\": $seeded_rc, \"tests_with_patch\": \"$tests\", \"checks\": \"$res\", \"mode\": \"isolated copy of /verif + scratch worktree\"}" > $DST/eval.json
cat $DST/eval.json
