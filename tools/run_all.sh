#!/bin/bash
# run every claimed check (quick by default) on the current tree; summary at the end
cd "$(dirname "$0")/.."
tier=${1:-quick}
ids=$(python3 -c "import json;print(' '.join(c['property_id'] for c in json.load(open('MANIFEST.json'))['checks']))")
fail=0
for id in $ids; do
  out=$(./check $id --tier $tier 2>&1); rc=$?
  echo "$out" | tail -4
  [ $rc -ne 0 ] && { echo "!! $id rc=$rc"; fail=1; }
done
echo "run_all done fail=$fail"
