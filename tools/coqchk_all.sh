#!/bin/bash
# Re-check every compiled file of the development (library + all Props + all Tie obligations) with the independent
# checker coqchk and record the axioms it reports.  Works in an isolated copy; writes /verif/audit/coqchk.txt.
set -u
EV=/tmp/ev/coqchk
rm -rf $EV; mkdir -p $EV /verif/audit
rsync -a --exclude .git --exclude .work --exclude 'replays/*' --exclude 'coq/Cases' /verif/ $EV/verif/
cd $EV/verif/coq
PYTHONPATH=$EV/verif/tools /venv/bin/python -m py2coq.gen_all /repo $EV/verif/coq/Gen >/dev/null
coq_makefile -f _CoqProject -o Makefile >/dev/null && make -j8 >/dev/null 2>&1 || { echo "library build failed"; exit 1; }
mods=""
for f in Props/C*.v Props/Tie/*.v; do
  timeout 900 coqc -q -R . LC $f >/dev/null 2>&1 || { echo "FAILED $f"; exit 1; }
done
for f in $(grep '\.v$' _CoqProject) Props/C*.v Props/Tie/*.v; do m=${f%.v}; mods="$mods LC.${m//\//.}"; done
( echo "# coqchk -o over $(echo $mods | wc -w) modules, $(date -u +%FT%TZ), coq $(coqc --version | head -1)"; 
  timeout 7200 coqchk -silent -o -R . LC $mods 2>&1 | sed -n "/CONTEXT SUMMARY/,\$p" ) > /verif/audit/coqchk.txt
echo rc=$? ; tail -n 30 /verif/audit/coqchk.txt
cd /; rm -rf $EV
