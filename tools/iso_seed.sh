#!/bin/bash
# usage: iso_seed.sh <seed> [tier] — run every check with VERIF_SEED=<seed> from an isolated copy of /verif
S=$1; T=${2:-quick}
EV=/tmp/ev/S$S
rm -rf $EV; mkdir -p $EV
rsync -a --exclude .git --exclude .work --exclude 'replays/*' --exclude 'coq/Cases' /verif/ $EV/verif/
cd $EV/verif && VERIF_SEED=$S tools/run_all.sh $T 2>&1 | grep -v "^$" | cut -c1-200
mkdir -p /tmp/ev/keep_S$S; cp $EV/verif/replays/*.json /tmp/ev/keep_S$S/ 2>/dev/null
rm -rf $EV
