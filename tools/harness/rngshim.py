"""harness.rngshim — deterministic replacement for the `rng` (= random) module used by
localcider.backend.sequence and wang_landau.  Every Random() instance draws from one shared
seeded generator and LOGS each call with its outcome, so the Coq models can be given the same
abstract choices.  seed() is ignored (the library seeds with time.time())."""
import random


class Tape:
    def __init__(self, seed):
        self.r = random.Random(seed)
        self.log = []

    # the module-like object to install as `rng`
    def module(self):
        tape = self

        class _R:
            def seed(self, *_a, **_k):
                pass

            def random(self):
                v = tape.r.random()
                tape.log.append(('random', v))
                return v

            def randint(self, a, b):
                v = tape.r.randint(a, b)
                tape.log.append(('randint', a, b, v))
                return v

            def sample(self, pop, k):
                pop = list(pop)          # raises like the real one would not; the library passes lists after fix D5
                v = tape.r.sample(pop, k)
                tape.log.append(('sample', pop, k, list(v)))
                return v

            def shuffle(self, x):
                tape.r.shuffle(x)
                tape.log.append(('shuffle', list(x)))

            def choice(self, x):
                v = tape.r.choice(x)
                tape.log.append(('choice', list(x), v))
                return v

        class _M:
            Random = _R
        return _M()

    def take(self):
        l, self.log = self.log, []
        return l


def install(tape, *modules):
    for m in modules:
        m.rng = tape.module()
