"""harness.gen_seq — structured sequence generators shared by C01–C11.

Everything is driven by the random.Random instance passed in, so a case replays
from (VERIF_SEED, index).
"""
import itertools
from .util import AAS, POS, NEG, NEUT


def spell(rng, pattern):
    """Realise a +/-/0 pattern (ints) with random residues of each class."""
    out = []
    for q in pattern:
        out.append(rng.choice(POS) if q > 0 else rng.choice(NEG) if q < 0 else rng.choice(NEUT))
    return ''.join(out)


def patterns_upto(n):
    """every word over {1,-1,0} of length 1..n"""
    for k in range(1, n + 1):
        for w in itertools.product((1, -1, 0), repeat=k):
            yield list(w)


def compositions_upto(n, nmin=1):
    for N in range(nmin, n + 1):
        for p in range(0, N + 1):
            for m in range(0, N - p + 1):
                yield (p, m, N - p - m)


def arrange(rng, comp):
    p, m, z = comp
    l = [1] * p + [-1] * m + [0] * z
    rng.shuffle(l)
    return l


def idp_like(rng, n):
    w = {'E': 10, 'K': 10, 'G': 8, 'S': 9, 'P': 7, 'Q': 6, 'D': 6, 'R': 5, 'A': 5, 'T': 5,
         'N': 3, 'L': 2, 'V': 2, 'H': 1, 'Y': 1, 'F': 1, 'M': 1, 'I': 1, 'W': 1, 'C': 1}
    ks = list(w)
    return ''.join(rng.choices(ks, [w[k] for k in ks], k=n))


def polyampholyte(rng, n):
    return ''.join(rng.choice('EKDR' if rng.random() < 0.8 else NEUT) for _ in range(n))


def polyelectrolyte(rng, n):
    c = rng.choice([POS, NEG])
    return ''.join(rng.choice(c if rng.random() < 0.6 else NEUT) for _ in range(n))


def low_complexity(rng, n):
    unit = ''.join(rng.choice(AAS) for _ in range(rng.randint(1, 4)))
    return (unit * (n // len(unit) + 1))[:n]


def uniform(rng, n):
    return ''.join(rng.choice(AAS) for _ in range(n))


CLASSES = [idp_like, polyampholyte, polyelectrolyte, low_complexity, uniform]


def random_classes(rng, count, nmin=1, nmax=60):
    """mixed bag: class-structured random sequences, homopolymers, very short ones"""
    out = []
    for i in range(count):
        n = rng.randint(nmin, nmax) if rng.random() < 0.8 else rng.randint(nmin, min(nmax, 7))
        out.append(CLASSES[i % len(CLASSES)](rng, n))
    return out


def singletons_and_pairs():
    out = list(AAS)
    out += [a + b for a in AAS for b in AAS]
    return out


def homopolymers(rng, k=6, nmax=30):
    return [rng.choice(AAS) * rng.randint(1, nmax) for _ in range(k)]
