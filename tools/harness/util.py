"""harness.util — shared helpers for the correspondence side.

Runs inside /venv/bin/python with /repo first on sys.path (set by runner.py).
"""
import contextlib
import io
import math
import os
import signal
import sys
from fractions import Fraction

ONE2CTOR = {
    'A': 'Ala', 'C': 'Cys', 'D': 'Asp', 'E': 'Glu', 'F': 'Phe', 'G': 'Gly',
    'H': 'His', 'I': 'Ile', 'K': 'Lys', 'L': 'Leu', 'M': 'Met', 'N': 'Asn',
    'P': 'Pro', 'Q': 'Gln', 'R': 'Arg', 'S': 'Ser', 'T': 'Thr', 'V': 'Val',
    'W': 'Trp', 'Y': 'Tyr'}
AAS = 'ACDEFGHIKLMNPQRSTVWY'
POS, NEG = 'KR', 'DE'
NEUT = ''.join(c for c in AAS if c not in POS + NEG)


class CallTimeout(Exception):
    pass


def _alarm(signum, frame):
    raise CallTimeout()


@contextlib.contextmanager
def quiet(seconds=10):
    """Capture the library's prints and bound the call's run time."""
    old_out, old_err = sys.stdout, sys.stderr
    sys.stdout, sys.stderr = io.StringIO(), io.StringIO()
    old = signal.signal(signal.SIGALRM, _alarm)
    signal.alarm(seconds)
    try:
        yield
    finally:
        signal.alarm(0)
        signal.signal(signal.SIGALRM, old)
        sys.stdout, sys.stderr = old_out, old_err


def call(f, *a, seconds=10, **k):
    """-> ('ok', value) | ('rejected', exception family) | ('timeout', None)"""
    try:
        with quiet(seconds):
            return ('ok', f(*a, **k))
    except CallTimeout:
        return ('timeout', None)
    except Exception as e:            # noqa: rejected, by family only
        return ('rejected', type(e).__name__)


# ------------------------------------------------------------------ Coq text

def cz(n):
    n = int(n)
    return '(%d)' % n if n < 0 else '%d' % n


def cnat(n):
    return '%d%%nat' % int(n)


def cq(x):
    """Exact rational of a Python number (float -> as_integer_ratio)."""
    if isinstance(x, Fraction):
        f = x
    elif isinstance(x, int):
        f = Fraction(x)
    else:
        x = float(x)
        if math.isnan(x) or math.isinf(x):
            raise ValueError('non-finite float')
        f = Fraction(*x.as_integer_ratio())
    return '(%s # %d)' % (cz(f.numerator), f.denominator)


def cseq(s):
    return '[' + '; '.join(ONE2CTOR[c] for c in s) + ']'


def cstr(s):
    assert all(32 <= ord(c) < 127 for c in s), repr(s)
    return '"%s"' % s.replace('"', '""')


def clist(items):
    return '[' + '; '.join(items) + ']'


def cbool(b):
    return 'true' if b else 'false'


def copt(x, f):
    return 'None' if x is None else '(Some %s)' % f(x)


def pat_of(s):
    return [1 if c in POS else -1 if c in NEG else 0 for c in s]


# ------------------------------------------------------------------ parallel evaluation

def pmap(fn, items, procs=None, chunk=64):
    """map fn over items in forked worker processes (the library is pure Python and slow)."""
    import multiprocessing as mp
    items = list(items)
    procs = procs or min(16, os.cpu_count() or 4)
    if len(items) < 64 or procs <= 1:
        return [fn(x) for x in items]
    ctx = mp.get_context('fork')
    with ctx.Pool(procs) as pool:
        return pool.map(fn, items, chunksize=max(1, min(chunk, len(items) // (procs * 4) or 1)))


PRELUDE = 0          # when k > 0: objects whose sequence has crc32 % k == 0 get prelude() before the query under test


DERIVED = 0          # when k > 0: for sequences with crc32 % k == 2 the object handed back is not the constructed one but its
                     # get_shuffled_sequence(frozen = every position): the same sequence, built by the sampler's code path
DECORATE = 0         # when k > 0: sequences with crc32 % k == 1 are handed over as a user might paste them (decorate())


def decorate(s, h):
    """the same word in another accepted spelling: mixed case, blocks of ten, wrapped lines, trailing newline"""
    k = (h // 7) % 5
    if k == 0:
        return ''.join(c.lower() if (h >> (i % 24)) & 1 else c for i, c in enumerate(s))
    if k == 1:
        return ' '.join(s[i:i + 10] for i in range(0, len(s), 10)) + ' '
    if k == 2:
        return '\n'.join(s[i:i + 7] for i in range(0, len(s), 7)) + '\n'
    if k == 3:
        return s + '\n'
    return '\t' + s.lower() + ' '


def SP(seq):
    from localcider.sequenceParameters import SequenceParameters
    given = seq
    h = 0
    if (PRELUDE or DECORATE or DERIVED) and isinstance(seq, str) and seq:
        import zlib
        h = zlib.crc32(seq.encode('utf-8', 'replace'))
        if DECORATE and h % DECORATE == 1 and seq.isalpha() and seq.isupper() and seq.isascii():
            given = decorate(seq, h)
    o = SequenceParameters(given)
    if DERIVED and h and h % DERIVED == 2 and given is seq:
        c = o.get_shuffled_sequence(frozen=set(range(len(seq))))
        if c.get_sequence() == seq:      # (with everything frozen nothing can move; if it does, C17's check reports it)
            o = c
    if PRELUDE and h and h % PRELUDE == 0:
        prelude(o, seq, h)
    return o


def SPx(seq):
    """(object, the sequence it holds): like SP(), but for sequences with crc32 % 6 == 4 the object is a REAL shuffle of the
    constructed one (get_shuffled_sequence with some positions frozen) — an object built by the library itself, whose
    parameters must be those of ITS sequence.  Harnesses that use SPx key their Coq case on the returned sequence."""
    o = SP(seq)
    if DERIVED and isinstance(seq, str) and len(seq) >= 4:
        import zlib
        h = zlib.crc32(seq.encode('utf-8', 'replace'))
        if h % 6 == 4:
            import random as _r
            r = _r.Random(h)
            frozen = set(r.sample(range(len(seq)), r.randint(0, len(seq) // 2)))
            c = o.get_shuffled_sequence(frozen=frozen) if frozen else o.get_shuffled_sequence()
            return c, c.get_sequence()
    return o, (seq if not isinstance(seq, str) else ''.join(ch for ch in seq.upper() if not ch.isspace()))


def prelude(o, seq, seed):
    """3-8 other queries on the object first: every parameter must come out the same on an object with a query history
    (stale memo, aliased array, shared default).  Deterministic in the sequence; errors of the prelude calls are ignored."""
    import random as _r
    r = _r.Random(seed)
    n = len(seq)
    sty = [i + 1 for i, c in enumerate(seq.upper()) if c in 'STY']

    def phos():
        o.set_phosphosites(r.sample(sty, min(len(sty), 2)))
        o.get_kappa_after_phosphorylation()
        o.get_phosphosequence()

    def moves():
        # the sampler's moves return NEW Sequence objects; the parent must stay as it was
        so = o.SeqObj
        cls = [1 if c in 'KR' else -1 if c in 'DE' else 0 for c in seq.upper()]
        pairs = [(i, j) for i in range(n) for j in range(i + 1, n) if cls[i] != cls[j]][:200]
        if pairs:
            i, j = r.choice(pairs)
            so.swapRes(i, j)
            so.swapRes(j, i)
        so.full_shuffle()
        so.swapRandChargeRes()

    w = lambda k: min(n, k)
    slow = [o.get_kappa, o.get_deltaMax, o.get_delta, o.get_Omega, lambda: o.get_deltaMax(True),
            lambda: o.get_kappa_X(['E', 'D'], ['K', 'R']), lambda: o.get_kappa_X(['D', 'E', 'K', 'R']), phos, phos]
    cheap = [o.get_SCD, o.get_FCR, o.get_NCPR, o.get_phasePlotRegion, o.get_isoelectric_point, o.get_amino_acid_fractions,
             o.get_molecular_weight, o.get_mean_hydropathy, o.get_uversky_hydropathy, o.get_WW_hydropathy, o.get_countPos,
             o.get_countNeg, o.get_countNeut, o.get_fraction_positive, o.get_fraction_negative, o.get_mean_net_charge,
             o.get_fraction_disorder_promoting, o.get_fraction_expanding, o.get_Omega_sequence, o.get_sequence, o.get_length,
             o.get_HTMLColorString, o.get_all_phosphorylatable_sites, o.get_phosphosites, o.get_PPII_propensity,
             lambda: o.get_NCPR(7.0), lambda: o.get_FCR(4.0), lambda: o.get_fraction_expanding(6.0),
             lambda: o.get_linear_NCPR(w(5)), lambda: o.get_linear_FCR(w(5)), lambda: o.get_linear_sigma(w(6)),
             lambda: o.get_linear_FCR(w(2)), lambda: o.get_linear_hydropathy(w(3)),
             lambda: o.get_linear_sequence_composition(w(4)), lambda: o.get_linear_sequence_composition(w(4), [['E', 'D'], ['P']]),
             lambda: o.get_reduced_alphabet_sequence(8), lambda: o.get_linear_complexity(blobLen=w(5)),
             lambda: o.get_linear_complexity(complexityType='LC', blobLen=w(4)),
             lambda: o.get_PPII_propensity(mode='hilser'), lambda: o.get_PPII_propensity(mode='kallenbach'), moves, moves]
    ops = cheap if n > 60 else cheap + slow + slow      # the charge-patterning searches are slow on long chains
    for f in r.sample(ops, r.randint(3, 8)):
        try:
            f()
        except Exception:
            pass


def fnum(x):
    """canonicalise a numeric implementation output to a Python float/int (numpy scalars -> Python)."""
    try:
        return x.item()
    except AttributeError:
        return x
