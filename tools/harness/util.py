"""harness.util — shared helpers for the correspondence side.

Runs inside /venv/bin/python with /repo first on sys.path (set by runner.py).
"""
import contextlib
import io
import math
import os
import signal
import sys
from fractions import Fraction

ONE2CTOR = {
    'A': 'Ala', 'C': 'Cys', 'D': 'Asp', 'E': 'Glu', 'F': 'Phe', 'G': 'Gly',
    'H': 'His', 'I': 'Ile', 'K': 'Lys', 'L': 'Leu', 'M': 'Met', 'N': 'Asn',
    'P': 'Pro', 'Q': 'Gln', 'R': 'Arg', 'S': 'Ser', 'T': 'Thr', 'V': 'Val',
    'W': 'Trp', 'Y': 'Tyr'}
AAS = 'ACDEFGHIKLMNPQRSTVWY'
POS, NEG = 'KR', 'DE'
NEUT = ''.join(c for c in AAS if c not in POS + NEG)


class CallTimeout(Exception):
    pass


def _alarm(signum, frame):
    raise CallTimeout()


@contextlib.contextmanager
def quiet(seconds=10):
    """Capture the library's prints and bound the call's run time."""
    old_out, old_err = sys.stdout, sys.stderr
    sys.stdout, sys.stderr = io.StringIO(), io.StringIO()
    old = signal.signal(signal.SIGALRM, _alarm)
    signal.alarm(seconds)
    try:
        yield
    finally:
        signal.alarm(0)
        signal.signal(signal.SIGALRM, old)
        sys.stdout, sys.stderr = old_out, old_err


def call(f, *a, seconds=10, **k):
    """-> ('ok', value) | ('rejected', exception family) | ('timeout', None)"""
    try:
        with quiet(seconds):
            return ('ok', f(*a, **k))
    except CallTimeout:
        return ('timeout', None)
    except Exception as e:            # noqa: rejected, by family only
        return ('rejected', type(e).__name__)


# ------------------------------------------------------------------ Coq text

def cz(n):
    n = int(n)
    return '(%d)' % n if n < 0 else '%d' % n


def cnat(n):
    return '%d%%nat' % int(n)


def cq(x):
    """Exact rational of a Python number (float -> as_integer_ratio)."""
    if isinstance(x, Fraction):
        f = x
    elif isinstance(x, int):
        f = Fraction(x)
    else:
        x = float(x)
        if math.isnan(x) or math.isinf(x):
            raise ValueError('non-finite float')
        f = Fraction(*x.as_integer_ratio())
    return '(%s # %d)' % (cz(f.numerator), f.denominator)


def cseq(s):
    return '[' + '; '.join(ONE2CTOR[c] for c in s) + ']'


def cstr(s):
    assert all(32 <= ord(c) < 127 for c in s), repr(s)
    return '"%s"' % s.replace('"', '""')


def clist(items):
    return '[' + '; '.join(items) + ']'


def cbool(b):
    return 'true' if b else 'false'


def copt(x, f):
    return 'None' if x is None else '(Some %s)' % f(x)


def pat_of(s):
    return [1 if c in POS else -1 if c in NEG else 0 for c in s]


# ------------------------------------------------------------------ parallel evaluation

def pmap(fn, items, procs=None, chunk=64):
    """map fn over items in forked worker processes (the library is pure Python and slow)."""
    import multiprocessing as mp
    items = list(items)
    procs = procs or min(16, os.cpu_count() or 4)
    if len(items) < 64 or procs <= 1:
        return [fn(x) for x in items]
    ctx = mp.get_context('fork')
    with ctx.Pool(procs) as pool:
        return pool.map(fn, items, chunksize=max(1, min(chunk, len(items) // (procs * 4) or 1)))


def SP(seq):
    from localcider.sequenceParameters import SequenceParameters
    return SequenceParameters(seq)


def fnum(x):
    """canonicalise a numeric implementation output to a Python float/int (numpy scalars -> Python)."""
    try:
        return x.item()
    except AttributeError:
        return x
